import mingus, os; assert os.path.realpath(mingus.__file__).startswith(os.path.realpath(os.path.dirname(__file__)))
"""Direct check of property C08 (diatonic harmony) through the public API.

Exit 0 when the statement holds on every case tried, 1 with a message otherwise.
"""
import copy
import sys

from mingus.core import chords, keys, notes, progressions

FAILURES = []
CASES = [0]


def check(cond, msg):
    CASES[0] += 1
    if not cond:
        FAILURES.append(msg)
        if len(FAILURES) > 25:
            finish()


def finish():
    if FAILURES:
        print("C08 does NOT hold (%d failures, %d cases):" % (len(FAILURES), CASES[0]))
        for f in FAILURES[:25]:
            print("  - " + f)
        sys.exit(1)
    print("C08 holds on %d cases" % CASES[0])
    sys.exit(0)


MAJOR = [c[0] for c in keys.keys]
MINOR = [c[1] for c in keys.keys]
ALL_KEYS = MAJOR + MINOR
assert len(ALL_KEYS) == 30

NUMERALS = ["I", "II", "III", "IV", "V", "VI", "VII"]
FUNCTIONS = ["tonic", "supertonic", "mediant", "subdominant", "dominant", "submediant", "subtonic"]
MAJOR_SHORT = ["I", "ii", "iii", "IV", "V", "vi", "vii"]
LOWER_ALIASES = ["ii", "iii", "vi", "vii"]
SUFFIXES = sorted(chords.chord_shorthand.keys())
LETTERS = "CDEFGAB"
MAJOR_STEPS = [0, 2, 4, 5, 7, 9, 11]
MINOR_STEPS = [0, 2, 3, 5, 7, 8, 10]


def pc(note):
    return notes.note_to_int(note)


def shift(note, n):
    """Reference: n single augment / diminish steps."""
    for _ in range(abs(n)):
        note = notes.augment(note) if n > 0 else notes.diminish(note)
    return note


def prefix(n):
    return "#" * n if n >= 0 else "b" * (-n)


def scale_of(key):
    """The key's notes, with a sanity check that they are the key's scale."""
    scale = keys.get_notes(key)
    check(len(scale) == 7, "get_notes(%r) has %d notes" % (key, len(scale)))
    tonic = key[0].upper() + key[1:]
    check(scale[0] == tonic, "get_notes(%r) starts with %r" % (key, scale[0]))
    start = LETTERS.index(tonic[0])
    check(
        [n[0] for n in scale] == [LETTERS[(start + i) % 7] for i in range(7)],
        "get_notes(%r) letters wrong: %r" % (key, scale),
    )
    steps = MAJOR_STEPS if key[0].isupper() else MINOR_STEPS
    check(
        [(pc(n) - pc(scale[0])) % 12 for n in scale] == steps,
        "get_notes(%r) is not the key's scale: %r" % (key, scale),
    )
    return scale


def stack(scale, degree, size):
    return [scale[(degree + 2 * i) % 7] for i in range(size)]


# ---------------------------------------------------------------------------
# 1. functions, aliases and progression strings denote the stacked thirds
# ---------------------------------------------------------------------------
for key in ALL_KEYS:
    scale = scale_of(key)
    all_triads = chords.triads(key)
    all_sevenths = chords.sevenths(key)
    check(all_triads == [stack(scale, d, 3) for d in range(7)], "triads(%r) = %r" % (key, all_triads))
    check(
        all_sevenths == [stack(scale, d, 4) for d in range(7)],
        "sevenths(%r) = %r" % (key, all_sevenths),
    )
    # answers are the caller's own: spoiling one must not spoil the next
    all_triads[0].append("spoiled")
    all_sevenths[3][0] = "spoiled"
    for d in range(7):
        for size, seven in ((3, ""), (4, "7")):
            want = stack(scale, d, size)
            names = [FUNCTIONS[d] + seven, NUMERALS[d] + seven]
            if NUMERALS[d].lower() in LOWER_ALIASES:
                names.append(NUMERALS[d].lower() + seven)
            for name in names:
                got = getattr(chords, name)(key)
                check(got == want, "chords.%s(%r) = %r, want %r" % (name, key, got, want))
                check(type(got) is list, "chords.%s(%r) is not a list" % (name, key))
                got.append("spoiled")
                got2 = getattr(chords, name)(key=key)
                check(got2 == want, "chords.%s(key=%r) second call = %r" % (name, key, got2))
            for text in (NUMERALS[d] + seven, NUMERALS[d].lower() + seven):
                got = progressions.to_chords(text, key)
                check(got == [want], "to_chords(%r, %r) = %r, want %r" % (text, key, got, [want]))
                got = progressions.to_chords([text], key=key)
                check(got == [want], "to_chords([%r], key=%r) = %r" % (text, key, got))
    # a whole progression, mixed case, given as list, tuple and iterator
    prog = ["I", "vi7", "ii", "V7", "iii", "IV7", "vii", "I"]
    want = [
        stack(scale, 0, 3), stack(scale, 5, 4), stack(scale, 1, 3), stack(scale, 4, 4),
        stack(scale, 2, 3), stack(scale, 3, 4), stack(scale, 6, 3), stack(scale, 0, 3),
    ]
    for form in (list(prog), tuple(prog), iter(prog)):
        got = progressions.to_chords(form, key)
        check(got == want, "to_chords(progression as %s, %r) = %r" % (type(form).__name__, key, got))

# default key is C
check(progressions.to_chords("I") == [["C", "E", "G"]], "to_chords('I') default key")
check(progressions.to_chords(["I", "V7"]) == [["C", "E", "G"], ["G", "B", "D", "F"]], "docstring example")

# ---------------------------------------------------------------------------
# 2. prefixes shift every note by a semitone each; suffixes rebuild the type
# ---------------------------------------------------------------------------
for ki, key in enumerate(ALL_KEYS):
    scale = keys.get_notes(key)
    for d in range(7):
        for seven in ("", "7"):
            base = stack(scale, d, 4 if seven else 3)
            for acc in range(-3, 4):
                for numeral in (NUMERALS[d], NUMERALS[d].lower()):
                    text = prefix(acc) + numeral + seven
                    got = progressions.to_chords(text, key)
                    want = [[shift(n, acc) for n in base]]
                    check(got == want, "to_chords(%r, %r) = %r, want %r" % (text, key, got, want))
                    if got and len(got[0]) == len(base):
                        check(
                            all(g[0] == b[0] and (pc(g) - pc(b)) % 12 == acc % 12 for g, b in zip(got[0], base)),
                            "to_chords(%r, %r): notes not shifted by %d semitones" % (text, key, acc),
                        )
        # all suffixes on this degree (prefix spread over the keys to bound the work)
        root = scale[d]
        for si, suffix in enumerate(SUFFIXES):
            if suffix in ("", "7"):
                continue
            acc = ((ki + d + si) % 7) - 3
            text = prefix(acc) + NUMERALS[d] + suffix
            got = progressions.to_chords(text, key)
            want = [[shift(n, acc) for n in chords.chord_shorthand[suffix](root)]]
            check(got == want, "to_chords(%r, %r) = %r, want %r" % (text, key, got, want))
            if (ki + si) % 5 == 0:
                text = prefix(acc) + NUMERALS[d].lower() + suffix
                got = progressions.to_chords([text], key)
                check(got == want, "to_chords([%r], %r) = %r, want %r" % (text, key, got, want))

# unrecognised numerals give the documented empty answer
for bad in ["", "X", "IIII", "VIII", "IIV", "VV", "XI", "bX7", "#", "bb", "m7", "7", "iiii", "VIV",
            "{I}", "%s", "I\nV"[1:], "Ï", "N.C.", "IVI"]:
    for key in ("C", "f#", "Cb"):
        got = progressions.to_chords(bad, key)
        check(got == [], "to_chords(%r, %r) = %r, want []" % (bad, key, got))
        got = progressions.to_chords(["I", bad, "V"], key)
        check(got == [], "to_chords(['I', %r, 'V'], %r) = %r, want []" % (bad, key, got))
for _ in range(3):
    check(progressions.to_chords("VIII", "C") == [], "repeated refusal")
    check(progressions.to_chords("I", "C") == [["C", "E", "G"]], "good answer after refusal")

# ---------------------------------------------------------------------------
# 3. chord -> function is the inverse of numeral -> chord in every major key
# ---------------------------------------------------------------------------
for key in MAJOR:
    scale = keys.get_notes(key)
    for d in range(7):
        tri = stack(scale, d, 3)
        sev = stack(scale, d, 4)
        keep_t, keep_s = list(tri), list(sev)
        got = progressions.determine(tri, key, True)
        check(got and got[0] == MAJOR_SHORT[d], "determine(%r, %r, True) = %r" % (tri, key, got))
        if got:
            check(progressions.to_chords(got[0], key) == [tri], "to_chords(determine(%r)) in %r" % (tri, key))
        got = progressions.determine(tri, key)
        check(got and got[0] == FUNCTIONS[d], "determine(%r, %r) = %r" % (tri, key, got))
        got = progressions.determine(sev, key, shorthand=True)
        check(got and got[0] == MAJOR_SHORT[d] + "7", "determine(%r, %r, True) = %r" % (sev, key, got))
        if got:
            check(progressions.to_chords(got[0], key) == [sev], "to_chords(determine(%r)) in %r" % (sev, key))
        got = progressions.determine(sev, key, False)
        check(got and got[0] == FUNCTIONS[d] + " seventh", "determine(%r, %r) = %r" % (sev, key, got))
        check(tri == keep_t and sev == keep_s, "determine changed its argument")
        # numeral -> chord -> numeral
        for text in (MAJOR_SHORT[d], MAJOR_SHORT[d] + "7"):
            ch = progressions.to_chords(text, key)[0]
            back = progressions.determine(ch, key, True)
            check(back and back[0] == text, "determine(to_chords(%r, %r)) = %r" % (text, key, back))
    # lists of chords
    got = progressions.determine([stack(scale, 0, 3), stack(scale, 4, 4)], key, True)
    check(
        len(got) == 2 and got[0][:1] == ["I"] and got[1][:1] == ["V7"],
        "determine(list of chords, %r) = %r" % (key, got),
    )

# ---------------------------------------------------------------------------
# 4. parse followed by format is the identity on numeral strings
# ---------------------------------------------------------------------------
for numeral in NUMERALS:
    for suffix in SUFFIXES:
        for acc in range(-6, 7):
            text = prefix(acc) + numeral + suffix
            parsed = progressions.parse_string(text)
            check(parsed == (numeral, acc, suffix), "parse_string(%r) = %r" % (text, parsed))
            back = progressions.tuple_to_string(parsed)
            check(back == text, "tuple_to_string(parse_string(%r)) = %r" % (text, back))
check(progressions.parse_string("bIM7") == ("I", -1, "M7"), "docstring example parse_string")
check(progressions.parse_string("#b#Im/M7") == ("I", 1, "m/M7"), "mixed accidentals")


# ---------------------------------------------------------------------------
# 5. substitutions
# ---------------------------------------------------------------------------
def well_formed(text):
    if not isinstance(text, str):
        return False
    roman, acc, suffix = progressions.parse_string(text)
    # (the general rule may write mixed prefixes such as '#bVIIdim7', so the
    # spelling is not required to be canonical - it has to denote a chord)
    if not (roman in NUMERALS and suffix in chords.chord_shorthand):
        return False
    denoted = progressions.to_chords(text, "C")
    return len(denoted) == 1 and len(denoted[0]) >= 2


def root_of(text, key):
    return progressions.to_chords(text, key)[0][0]


RULES = [
    progressions.substitute_harmonic,
    progressions.substitute_minor_for_major,
    progressions.substitute_major_for_minor,
    progressions.substitute_diminished_for_diminished,
    progressions.substitute_diminished_for_dominant,
]

SUB_SUFFIXES = ["", "7", "m", "M", "m7", "M7", "dim", "dim7", "dom7", "sus4", "m7b5", "6/9", "7b5", "+"]


def check_rule_results(rule_name, entry, key, res, ignoring=False):
    """What each rule promises about the chords its answers denote."""
    roman, acc, suffix = progressions.parse_string(entry)
    if rule_name == "substitute_harmonic" and res:
        orig = progressions.to_chords(prefix(acc) + roman, key)[0]
        for r in res:
            sub = progressions.to_chords(r, key)[0][:3]
            shared = len(set(orig) & set(sub))
            check(shared == 2, "%s(%r) in %r: %r shares %d notes with %r" % (rule_name, entry, key, r, shared, orig))
    elif rule_name == "substitute_minor_for_major":
        for r in res:
            gap = (pc(root_of(r, key)) - pc(root_of(prefix(acc) + roman, key))) % 12
            check(gap == 3, "%s(%r) in %r: root of %r is %d semitones up" % (rule_name, entry, key, r, gap))
    elif rule_name == "substitute_major_for_minor":
        for r in res:
            gap = (pc(root_of(r, key)) - pc(root_of(prefix(acc) + roman, key))) % 12
            check(gap == 9, "%s(%r) in %r: root of %r is %d semitones up" % (rule_name, entry, key, r, gap))
    elif rule_name == "substitute_diminished_for_diminished":
        last = pc(root_of(prefix(acc) + roman, key))
        for r in res:
            now = pc(root_of(r, key))
            check((now - last) % 12 == 3, "%s(%r) in %r: %r does not cycle by a minor third" % (rule_name, entry, key, r))
            if not ignoring:
                check(progressions.parse_string(r)[2] in ("dim", "dim7"), "%s(%r): %r is not diminished" % (rule_name, entry, r))
            last = now


for ki, key in enumerate(MAJOR):
    for ni, numeral in enumerate(NUMERALS):
        for si, suffix in enumerate(SUB_SUFFIXES):
            for acc in (-2, -1, 0, 1, 2):
                if (ki + ni + si + acc) % 3 and acc != 0:
                    continue
                entry = prefix(acc) + numeral + suffix
                progression = ["I", entry, "V7", entry]
                for index in (1, -1):
                    for rule in RULES:
                        for kwargs in ({}, {"ignore_suffix": True}):
                            before = copy.deepcopy(progression)
                            res = rule(progression, index, **kwargs)
                            check(progression == before, "%s changed the progression %r" % (rule.__name__, before))
                            check(isinstance(res, list), "%s returned %r" % (rule.__name__, type(res)))
                            for r in res:
                                check(well_formed(r), "%s(%r) gave ill-formed %r" % (rule.__name__, entry, r))
                            if all(well_formed(r) for r in res):
                                check_rule_results(rule.__name__, entry, key, res, bool(kwargs))
                    if index != 1:
                        continue
                    previous = None
                    for depth in (0, 1, 2):
                        before = copy.deepcopy(progression)
                        res = progressions.substitute(progression, index, depth)
                        check(progression == before, "substitute changed the progression %r" % (before,))
                        for r in res:
                            check(well_formed(r), "substitute(%r, depth=%d) gave ill-formed %r" % (entry, depth, r))
                        if previous is not None:
                            check(set(previous) <= set(res), "substitute(%r, depth=%d) lost answers of depth %d" % (entry, depth, depth - 1))
                            for r in set(previous):
                                # "the substitutions of each result will be recursively added as well"
                                if depth == 1:
                                    check(set(progressions.substitute([r], 0)) <= set(res), "substitute(%r, depth=1) lacks the substitutions of %r" % (entry, r))
                        previous = res
                    # the progression may be a tuple too, and the answer is independent of the neighbours
                    res_t = progressions.substitute(tuple(progression), index, depth=1)
                    res_l = progressions.substitute([entry], 0, 1)
                    check(res_t == res_l, "substitute(%r) depends on the neighbours or the container" % entry)

# documented examples
check(progressions.substitute(["I", "IV", "V", "I"], 0) == ["III", "III7", "VI", "VI7", "I7"], "substitute docstring example")
check(progressions.substitute_minor_for_major(["VI"], 0) == ["I"], "minor_for_major VI")
check(progressions.substitute_minor_for_major(["Vm"], 0) == ["bVIIM"], "minor_for_major Vm")
check(progressions.substitute_minor_for_major(["VIm7"], 0) == ["IM7"], "minor_for_major VIm7")
check(progressions.substitute_major_for_minor(["I"], 0) == ["VI"], "major_for_minor I")
check(progressions.substitute_major_for_minor(["VM7"], 0) == ["IIIm7"], "major_for_minor VM7")
check(
    progressions.substitute_diminished_for_diminished(["VII"], 0) == ["IIdim", "IVdim", "bVIdim"],
    "diminished_for_diminished VII",
)
check(progressions.skip("I") == "II" and progressions.skip("VII") == "I" and progressions.skip("I", 2) == "III", "skip examples")

finish()
