import mingus, os; assert os.path.realpath(mingus.__file__).startswith(os.path.realpath(os.path.dirname(__file__)))
# Direct check of property C12 (NoteContainer is a pitch-ordered, duplicate-free
# set under any history) through the public API only.
import itertools
import random
import sys

from mingus.containers.note import Note
from mingus.containers.note_container import NoteContainer
from mingus.core import chords, intervals, progressions

LETTER = {"C": 0, "D": 2, "E": 4, "F": 5, "G": 7, "A": 9, "B": 11}
CASES = [0]


def fail(msg):
    print("C12 VIOLATED: %s" % msg)
    sys.exit(1)


def raw(name):
    """Unreduced semitone offset of a name inside 'its' octave (Cb -> -1)."""
    return LETTER[name[0]] + name[1:].count("#") - name[1:].count("b")


def pitch(name, octave):
    return octave * 12 + raw(name)


class Model(object):
    """Set model: list of (name, octave), kept sorted by pitch, first-in wins."""

    def __init__(self):
        self.items = []

    def pitches(self):
        return [pitch(n, o) for n, o in self.items]

    def add(self, name, octave):
        if pitch(name, octave) not in self.pitches():
            self.items.append((name, octave))
            self.items.sort(key=lambda it: pitch(*it))

    def add_bare(self, name):
        if not self.items:
            self.add(name, 4)
            return
        top = self.pitches()[-1]
        target = top + (raw(name) - top) % 12  # at or above top, < octave above
        octave, rest = divmod(target - raw(name), 12)
        assert rest == 0
        self.add(name, octave)

    def add_string(self, s):
        if "-" in s:
            n, o = s.split("-")
            self.add(n, int(o))
        else:
            self.add_bare(s)

    def remove_name(self, name, octave=None):
        self.items = [
            (n, o) for n, o in self.items if not (n == name and (octave is None or o == octave))
        ]

    def remove_pitch(self, p):
        self.items = [it for it in self.items if pitch(*it) != p]


PAIRWISE = [
    ("is_consonant", intervals.is_consonant, (True, False)),
    ("is_perfect_consonant", intervals.is_perfect_consonant, (True, False)),
    ("is_imperfect_consonant", intervals.is_imperfect_consonant, ()),
]


def check(nc, model, where):
    CASES[0] += 1
    want = model.items
    got = [(n.name, n.octave) for n in nc.notes]
    if got != want:
        fail("%s: content %r, model says %r" % (where, got, want))
    ps = [int(n) for n in nc.notes]
    if ps != model.pitches():
        fail("%s: pitches %r vs model %r" % (where, ps, model.pitches()))
    if any(a >= b for a, b in zip(ps, ps[1:])):
        fail("%s: not strictly ascending: %r" % (where, ps))
    if len(nc) != len(want):
        fail("%s: len %r" % (where, len(nc)))
    if [(n.name, n.octave) for n in nc] != want or (want and (nc[0].name, nc[0].octave) != want[0]):
        fail("%s: iteration/indexing disagree" % where)
    # membership
    for n, o in want:
        if Note(n, o) not in nc:
            fail("%s: %s-%d should be a member" % (where, n, o))
    lo = (min(ps) if ps else 48) - 2
    for p in range(lo, lo + 30):
        if (Note().from_int(p) in nc) != (p in ps):
            fail("%s: membership of pitch %d wrong" % (where, p))
    # equality
    twin = NoteContainer([[n, o] for n, o in want])
    if not (nc == twin) or not (twin == nc) or nc != twin:
        fail("%s: not equal to a container with the same content" % where)
    extra = Note().from_int(max(ps) + 1 if ps else 60)
    other = NoteContainer([[n, o] for n, o in want] + [extra])
    if nc == other or not (nc != other):
        fail("%s: equal to a container with one more note" % where)
    if want:
        shifted = NoteContainer([[n, o] for n, o in want[:-1]] + [[want[-1][0], want[-1][1] + 1]])
        if nc == shifted:
            fail("%s: equal to a container with a different top note" % where)
    if nc == None:  # noqa: E711
        fail("%s: equal to None" % where)
    # unique names
    names = []
    for n, _ in want:
        if n not in names:
            names.append(n)
    if nc.get_note_names() != names:
        fail("%s: get_note_names %r, expected %r" % (where, nc.get_note_names(), names))
    # consonance predicates
    pairs = list(itertools.combinations([n for n, _ in want], 2))
    for meth, fn, params in PAIRWISE:
        if params:
            for flag in params:
                exp = all(fn(a, b, flag) for a, b in pairs)
                if bool(getattr(nc, meth)(flag)) != exp or bool(getattr(nc, meth)(include_fourths=flag)) != exp:
                    fail("%s: %s(%r) != %r" % (where, meth, flag, exp))
            exp = all(fn(a, b) for a, b in pairs)
            if bool(getattr(nc, meth)()) != exp:
                fail("%s: %s() != %r" % (where, meth, exp))
        else:
            exp = all(fn(a, b) for a, b in pairs)
            if bool(getattr(nc, meth)()) != exp:
                fail("%s: %s() != %r" % (where, meth, exp))
    for flag in (True, False):
        exp = not all(intervals.is_consonant(a, b, not flag) for a, b in pairs)
        if bool(nc.is_dissonant(flag)) != exp:
            fail("%s: is_dissonant(%r) != %r" % (where, flag, exp))
    if bool(nc.is_dissonant()) != (not all(intervals.is_consonant(a, b, True) for a, b in pairs)):
        fail("%s: is_dissonant()" % where)


# ---- operation alphabet: (label, apply to container, apply to model) ----------
def op_add_note_obj(name, octave):
    def on_nc(nc):
        nc.add_note(Note(name, octave))
        return nc

    return ("add_note(Note(%s-%d))" % (name, octave), on_nc, lambda m: m.add(name, octave))


def op_add_bare(name):
    def on_nc(nc):
        nc.add_note(name)
        return nc

    return ("add_note(%r)" % name, on_nc, lambda m: m.add_bare(name))


def op_add_name_octave(name, octave, kw=False):
    def on_nc(nc):
        if kw:
            nc.add_note(note=name, octave=octave)
        else:
            nc.add_note(name, octave)
        return nc

    return ("add_note(%r,%d)" % (name, octave), on_nc, lambda m: m.add(name, octave))


def op_add_list(items, as_tuple=False, as_iter=False):
    def on_nc(nc):
        arg = [list(x) if isinstance(x, tuple) and len(x) == 2 and isinstance(x[1], int) else x for x in items]
        arg = [Note(*x[1:]) if isinstance(x, tuple) and x[0] == "N" else x for x in arg]
        if as_tuple:
            arg = tuple(arg)
        if as_iter:
            arg = iter(arg)
        nc.add_notes(arg)
        return nc

    def on_m(m):
        for x in items:
            if isinstance(x, str):
                m.add_string(x)
            elif x[0] == "N":
                m.add(x[1], x[2])
            else:
                m.add(x[0], x[1])

    return ("add_notes(%r)" % (items,), on_nc, on_m)


def op_add_container(spec, plus=False):
    def on_nc(nc):
        other = NoteContainer([[n, o] for n, o in spec])
        if plus:
            res = nc + other
            if res is not nc:
                fail("'+' did not give back the container")
        else:
            nc.add_notes(other)
        return nc

    def on_m(m):
        tmp = Model()
        for n, o in spec:
            tmp.add(n, o)
        for n, o in tmp.items:
            m.add(n, o)

    return ("%s container %r" % ("+" if plus else "add_notes", spec), on_nc, on_m)


def op_plus_string(s):
    def on_nc(nc):
        res = nc + s
        if res is not nc:
            fail("'+' did not give back the container")
        return nc

    return ("+ %r" % s, on_nc, lambda m: m.add_string(s))


def op_add_self():
    def on_nc(nc):
        nc.add_notes(nc)
        nc + nc
        if len(nc):
            nc.add_note(nc[0])
        return nc

    return ("add self", on_nc, lambda m: None)


def op_remove_name(name, octave=None, kw=False):
    def on_nc(nc):
        if octave is None:
            nc.remove_note(name)
        elif kw:
            nc.remove_note(note=name, octave=octave)
        else:
            nc.remove_note(name, octave)
        return nc

    return ("remove_note(%r,%r)" % (name, octave), on_nc, lambda m: m.remove_name(name, octave))


def op_remove_obj(name, octave):
    def on_nc(nc):
        nc.remove_note(Note(name, octave))
        return nc

    return ("remove_note(Note(%s-%d))" % (name, octave), on_nc, lambda m: m.remove_pitch(pitch(name, octave)))


def op_remove_list(items, minus=False, as_tuple=False):
    def on_nc(nc):
        arg = [Note(x[1], x[2]) if isinstance(x, tuple) else x for x in items]
        if as_tuple:
            arg = tuple(arg)
        if minus:
            res = nc - arg
            if res is not nc:
                fail("'-' did not give back the container")
        else:
            nc.remove_notes(arg)
        return nc

    def on_m(m):
        for x in items:
            if isinstance(x, tuple):
                m.remove_pitch(pitch(x[1], x[2]))
            else:
                m.remove_name(x)

    return ("%s %r" % ("-" if minus else "remove_notes", items), on_nc, on_m)


def op_minus_one(x):
    def on_nc(nc):
        arg = Note(x[1], x[2]) if isinstance(x, tuple) else x
        res = nc - arg
        if res is not nc:
            fail("'-' did not give back the container")
        return nc

    def on_m(m):
        if isinstance(x, tuple):
            m.remove_pitch(pitch(x[1], x[2]))
        else:
            m.remove_name(x)

    return ("- %r" % (x,), on_nc, on_m)


def op_remove_self():
    def on_nc(nc):
        nc.remove_notes(nc.notes)
        return nc

    def on_m(m):
        m.items = []

    return ("remove own notes", on_nc, on_m)


SMALL = [
    op_add_note_obj("E", 4),
    op_add_bare("C"),
    op_add_bare("G"),
    op_add_name_octave("C", 5),
    op_add_list(["E", "C-3", ("Fb", 4)]),
    op_add_container([("G", 3), ("C", 5), ("Dbb", 5)], plus=True),
    op_plus_string("B#"),
    op_remove_name("C"),
    op_remove_name("C", 5),
    op_remove_obj("Fb", 4),
    op_remove_list(["G", ("N", "B#", 4)]),
    op_minus_one("E"),
]

LARGE = SMALL + [
    op_add_note_obj("Cb", 5),
    op_add_note_obj("B", 4),
    op_add_note_obj("A##", 2),
    op_add_bare("Cbb"),
    op_add_bare("B#"),
    op_add_bare("F#"),
    op_add_bare("Bb"),
    op_add_bare("E####"),
    op_add_bare("Dbbbbbbbbbbbbbb"),
    op_add_name_octave("G", 0),
    op_add_name_octave("A", 9, kw=True),
    op_add_name_octave("Cb", 1),
    op_add_list(["C", "E", "G", "C", "B"], as_tuple=True),
    op_add_list(["A", "C", "E", "F", "G", "A"], as_iter=True),
    op_add_list([("N", "D", 4), ("N", "D", 6), "D", ("D", 2), "D-7"]),
    op_add_list([]),
    op_add_container([("C", 4), ("E", 4), ("G", 4)]),
    op_add_container([]),
    op_plus_string("D-5"),
    op_plus_string("Ab"),
    op_add_self(),
    op_remove_name("D"),
    op_remove_name("D", 6, kw=True),
    op_remove_name("B#"),
    op_remove_name("Cb", 1),
    op_remove_name("H"),
    op_remove_name("G", 11),
    op_remove_obj("C", 5),
    op_remove_obj("Dbb", 4),
    op_remove_list(["C", "E"], minus=True),
    op_remove_list([("N", "A", 9), "F#", ("N", "C", 0)], as_tuple=True),
    op_remove_list([]),
    op_minus_one(("N", "E", 4)),
    op_minus_one("Bb"),
    op_remove_self(),
]


def run_sequence(ops, every_step):
    nc = NoteContainer()
    m = Model()
    trail = []
    for label, on_nc, on_m in ops:
        trail.append(label)
        nc = on_nc(nc)
        on_m(m)
        if every_step:
            check(nc, m, " ; ".join(trail))
    if not every_step:
        check(nc, m, " ; ".join(trail))


def exhaustive():
    for depth in (1, 2):
        for ops in itertools.product(LARGE, repeat=depth):
            run_sequence(ops, every_step=False)
    for ops in itertools.product(SMALL, repeat=3):
        run_sequence(ops, every_step=False)


def random_long():
    rnd = random.Random(1212)
    for _ in range(60):
        ops = [rnd.choice(LARGE) for _ in range(rnd.randint(8, 40))]
        run_sequence(ops, every_step=True)
    # a long one with generated operands: many distinct names in one process
    names = [l + acc for l in "CDEFGAB" for acc in ("", "#", "b", "##", "bb", "#b", "b#b")]
    nc, m = NoteContainer(), Model()
    for i in range(400):
        n = rnd.choice(names)
        o = rnd.randint(0, 8)
        r = rnd.random()
        if r < 0.3:
            nc.add_note(n)
            m.add_bare(n)
        elif r < 0.5:
            nc.add_note(Note(n, o))
            m.add(n, o)
        elif r < 0.6:
            nc + ("%s-%d" % (n, o))
            m.add(n, o)
        elif r < 0.75:
            nc.remove_note(n)
            m.remove_name(n)
        elif r < 0.85:
            nc.remove_note(n, o)
            m.remove_name(n, o)
        elif r < 0.95:
            nc - Note(n, o)
            m.remove_pitch(pitch(n, o))
        else:
            nc.remove_notes([n, Note(n, o)])
            m.remove_name(n)
            m.remove_pitch(pitch(n, o))
        if len(m.items) > 14:
            victim = m.items[rnd.randrange(len(m.items))]
            nc.remove_note(victim[0])
            m.remove_name(victim[0])
        if i % 5 == 0:
            check(nc, m, "generated sequence step %d" % i)


def voiced(names):
    m = Model()
    for n in names:
        m.add_string(n)
    return m


def check_ascending_from_root(nc, names, where):
    if not names:
        return
    # walk the given names: each at or above the previous top, < an octave above it
    top = None
    for n in names:
        if top is None:
            p = pitch(n, 4)
        else:
            p = top + (raw(n) - top) % 12
            if not (top <= p < top + 12):
                fail("%s: bad model" % where)
        if p not in [int(x) for x in nc]:
            fail("%s: %s expected at pitch %d, container is %r" % (where, n, p, nc))
        top = p if top is None else max(top, p)


def constructors():
    roots = ["C", "C#", "Db", "D", "Eb", "E", "Fb", "E#", "F", "F#", "Gb", "G", "Ab", "A", "Bb", "B", "Cb", "B#"]
    for sh in chords.chord_shorthand:
        for root in roots:
            names = chords.from_shorthand(root + sh)
            for build in ("from_chord_shorthand", "from_chord"):
                nc = NoteContainer(["A-1", "B-7"])
                res = getattr(nc, build)(root + sh)
                if res is not nc:
                    fail("%s(%r) did not return the container" % (build, root + sh))
                where = "%s(%r)" % (build, root + sh)
                check_ascending_from_root(nc, names, where)
                check(nc, voiced(names), where)
                if (nc[0].name, nc[0].octave) != (names[0], 4):
                    fail("%s does not start on %s-4: %r" % (where, names[0], nc))
    for sh in ("Am/G", "C/E", "C|Am", "Dm7|G", "Abm7/Gb"):
        names = chords.from_shorthand(sh)
        nc = NoteContainer().from_chord_shorthand(sh)
        check_ascending_from_root(nc, names, sh)
        check(nc, voiced(names), "from_chord_shorthand(%r)" % sh)

    shorthands = [acc + d for d in "1234567" for acc in ("", "b", "#", "bb", "##")]
    starts = ["C", "F#", "Bb", "Cb", "B#", "E", Note("G", 2), Note("Db", 6), Note("A", 4)]
    for start in starts:
        for sh in shorthands:
            for up in (True, False):
                s = Note(start) if not isinstance(start, str) else Note(start)
                if not up and int(s) < 24:
                    continue
                semis = [0, 2, 4, 5, 7, 9, 11][int(sh[-1]) - 1] + sh.count("#") - sh.count("b")
                target = int(s) + semis if up else int(s) - semis
                tname = intervals.from_shorthand(s.name, sh, up)
                toct, rest = divmod(target - raw(tname), 12)
                assert rest == 0
                m = Model()
                m.add(s.name, s.octave)
                m.add(tname, toct)
                nc = NoteContainer(["D-2"])
                arg = start if isinstance(start, str) else Note(start)
                res = nc.from_interval_shorthand(arg, sh, up) if up else nc.from_interval(arg, sh, False)
                if res is not nc:
                    fail("from_interval_shorthand did not return the container")
                check(nc, m, "from_interval_shorthand(%r,%r,%r)" % (start, sh, up))

    keys = ["C", "G", "D", "F", "Bb", "Eb", "F#", "Db", "a", "e", "c#", "Cb", "Gb"]
    suffixes = ["", "7", "m", "dim", "M7", "m7", "dim7", "6", "sus4"]
    for key in keys:
        for num in progressions.numerals:
            for pre in ("", "b", "#"):
                for suf in suffixes:
                    sh = pre + num + suf
                    try:
                        names = progressions.to_chords(sh, key)[0]
                    except Exception:
                        continue
                    nc = NoteContainer(["E-1"])
                    res = nc.from_progression_shorthand(sh, key) if pre else nc.from_progression(sh, key)
                    if res is not nc:
                        fail("from_progression_shorthand(%r,%r) did not return the container" % (sh, key))
                    where = "from_progression_shorthand(%r,%r)" % (sh, key)
                    check_ascending_from_root(nc, names, where)
                    check(nc, voiced(names), where)
                    if (nc[0].name, nc[0].octave) != (names[0], 4):
                        fail("%s does not start on %s-4" % (where, names[0]))
    nc = NoteContainer().from_progression_shorthand("VI")
    check(nc, voiced(["A", "C", "E"]), "from_progression_shorthand('VI') default key")


def constructor_arg_forms():
    # NoteContainer(...) accepts the same forms as add_notes
    check(NoteContainer(), Model(), "NoteContainer()")
    check(NoteContainer([]), Model(), "NoteContainer([])")
    check(NoteContainer("A"), voiced(["A"]), "NoteContainer('A')")
    check(NoteContainer(notes=["A", "C", "E"]), voiced(["A", "C", "E"]), "NoteContainer(notes=[...])")
    check(NoteContainer(Note("Gb", 2)), voiced(["Gb-2"]), "NoteContainer(Note)")
    check(NoteContainer(NoteContainer(["A", "E", "C-5"])), voiced(["A", "C", "E"]), "NoteContainer(NoteContainer)")
    m = Model()
    m.add("C", 5)
    m.add("E", 6)
    check(NoteContainer([["C", 5, {"velocity": 20}], ["E", 6, {"velocity": 20}]]), m, "list of triples")
    n = NoteContainer([["C", 5, {"velocity": 20}]])
    if n[0].velocity != 20:
        fail("dynamics of a [name, octave, dynamics] entry not applied")
    # one Note object used several times / in several containers
    shared = Note("F", 3)
    a, b = NoteContainer(), NoteContainer(["C"])
    for _ in range(3):
        a.add_note(shared)
        b.add_notes([shared, shared])
        a + shared
    ma, mb = Model(), Model()
    ma.add("F", 3)
    mb.add("C", 4)
    mb.add("F", 3)
    check(a, ma, "shared note, a")
    check(b, mb, "shared note, b")
    a - shared
    check(a, Model(), "shared note removed from a")
    check(b, mb, "shared note still in b")


exhaustive()
random_long()
constructors()
constructor_arg_forms()
print("C12 holds on %d checked container states" % CASES[0])
sys.exit(0)
