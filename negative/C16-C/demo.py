import mingus, os; assert os.path.realpath(mingus.__file__).startswith(os.path.realpath(os.path.dirname(__file__)))
"""Direct check of property C16 (MIDI output is well-formed SMF denoting the music written)."""
import random
import sys
import tempfile

from mingus.containers import Bar, Composition, Note, NoteContainer, Track
from mingus.containers.instrument import MidiInstrument
from mingus.core.keys import major_keys, minor_keys
from mingus.midi import midi_file_out
from mingus.midi.midi_track import MidiTrack

TMP = tempfile.mkdtemp(prefix="c16demo")
PATH = os.path.join(TMP, "out.mid")
NCASES = [0]


class Bad(Exception):
    pass


def need(cond, msg):
    if not cond:
        raise Bad(msg)


# ---------------------------------------------------------------- SMF reader
def read_vlq(data, pos, end):
    value = 0
    for n in range(4):
        need(pos < end, "VLQ runs past chunk end")
        b = data[pos]
        pos += 1
        value = (value << 7) | (b & 0x7F)
        if not b & 0x80:
            return value, pos
    raise Bad("VLQ longer than 4 bytes")


def parse_smf(data):
    need(data[:4] == b"MThd", "no MThd")
    need(int.from_bytes(data[4:8], "big") == 6, "header length != 6")
    fmt = int.from_bytes(data[8:10], "big")
    ntracks = int.from_bytes(data[10:12], "big")
    division = int.from_bytes(data[12:14], "big")
    need(fmt == 1, "format %d" % fmt)
    need(division == 72, "division %d" % division)
    pos = 14
    tracks = []
    while pos < len(data):
        need(data[pos:pos + 4] == b"MTrk", "bad chunk id at %d" % pos)
        need(pos + 8 <= len(data), "truncated chunk header")
        length = int.from_bytes(data[pos + 4:pos + 8], "big")
        pos += 8
        end = pos + length
        need(end <= len(data), "chunk length runs past file end")
        events = []
        tick = 0
        running = None
        saw_eot = False
        while pos < end:
            need(not saw_eot, "events after end-of-track")
            delta, pos = read_vlq(data, pos, end)
            tick += delta
            need(pos < end, "missing event after delta")
            b = data[pos]
            if b == 0xFF:
                need(pos + 2 <= end, "truncated meta")
                mtype = data[pos + 1]
                need(mtype < 0x80, "meta type >= 0x80")
                mlen, p2 = read_vlq(data, pos + 2, end)
                need(p2 + mlen <= end, "meta data past chunk end")
                payload = data[p2:p2 + mlen]
                pos = p2 + mlen
                running = None
                if mtype == 0x2F:
                    need(mlen == 0, "EOT with data")
                    saw_eot = True
                elif mtype == 0x51:
                    need(mlen == 3, "tempo length")
                elif mtype == 0x58:
                    need(mlen == 4, "timesig length")
                elif mtype == 0x59:
                    need(mlen == 2, "keysig length")
                events.append((tick, "meta", mtype, payload))
            elif b in (0xF0, 0xF7):
                slen, p2 = read_vlq(data, pos + 1, end)
                need(p2 + slen <= end, "sysex past chunk end")
                pos = p2 + slen
                running = None
                events.append((tick, "sysex", b, data[p2:p2 + slen]))
            else:
                if b & 0x80:
                    need(b < 0xF0, "bad status %02x" % b)
                    status = b
                    running = b
                    pos += 1
                else:
                    need(running is not None, "data byte without running status")
                    status = running
                nparams = 1 if (status >> 4) in (0xC, 0xD) else 2
                need(pos + nparams <= end, "truncated channel event")
                params = tuple(data[pos:pos + nparams])
                need(all(p < 0x80 for p in params), "data byte >= 0x80")
                pos += nparams
                events.append((tick, "chan", status >> 4, status & 0xF, params))
        need(pos == end, "chunk length mismatch")
        need(saw_eot, "chunk does not end in end-of-track")
        tracks.append(events)
    need(ntracks == len(tracks), "header says %d tracks, found %d" % (ntracks, len(tracks)))
    return tracks


# ---------------------------------------------------------------- expectation
def keysig_of(key):
    name = key.key if hasattr(key, "key") else key
    if name in minor_keys and name.islower():
        return (minor_keys.index(name) - 7, 1)
    return (major_keys.index(name) - 7, 0)


class Expect(object):
    def __init__(self, bpm):
        self.ons = []
        self.offs = []
        self.names = []
        self.timesigs = []
        self.keysigs = []
        self.programs = []  # (channel, program)
        self.tempo = 60000000 // bpm
        self.t = 0

    def entry(self, notes, ticks):
        for n in notes:
            self.ons.append((self.t, n.channel, int(n) + 12, n.velocity))
            self.offs.append((self.t + ticks, n.channel, int(n) + 12, n.velocity))
        self.t += ticks

    def bar(self, bar):
        self.timesigs.append(tuple(bar.meter))
        self.keysigs.append(keysig_of(bar.key))
        for beat, value, nc in bar:
            ticks = int(round(288 / value))
            if nc is None or len(nc) == 0:
                self.t += ticks
            else:
                self.entry(list(nc), ticks)

    def track(self, track):
        self.names.append(track.name)
        first = None
        for bar in track:
            for beat, value, nc in bar:
                if first is None and nc is not None and len(nc):
                    first = nc[0]
        if hasattr(track.instrument, "instrument_nr") and first is not None:
            self.programs.append((first.channel, track.instrument.instrument_nr))
        for bar in track:
            self.bar(bar)


def compare(events, exp, what):
    ons = sorted((e[0], e[3], e[4][0], e[4][1]) for e in events if e[1] == "chan" and e[2] == 9)
    offs = sorted((e[0], e[3], e[4][0], e[4][1]) for e in events if e[1] == "chan" and e[2] == 8)
    need(ons == sorted(exp.ons), "%s: note-ons differ\n got %r\n exp %r" % (what, ons, sorted(exp.ons)))
    need(offs == sorted(exp.offs), "%s: note-offs differ\n got %r\n exp %r" % (what, offs, sorted(exp.offs)))
    # no hanging / self-overlapping notes, walking the events in file order
    sounding = {}
    for e in events:
        if e[1] != "chan":
            continue
        k = (e[3], e[4][0])
        if e[2] == 9:
            need(not sounding.get(k), "%s: note %r overlaps itself" % (what, k))
            sounding[k] = True
        elif e[2] == 8:
            need(sounding.get(k), "%s: note-off without note-on %r" % (what, k))
            sounding[k] = False
    need(not any(sounding.values()), "%s: hanging note" % what)
    tempos = [int.from_bytes(e[3], "big") for e in events if e[1] == "meta" and e[2] == 0x51]
    need(tempos and all(t == exp.tempo for t in tempos), "%s: tempo %r != %r" % (what, tempos, exp.tempo))
    names = [e[3].decode("ascii") for e in events if e[1] == "meta" and e[2] == 0x03]
    need(names == exp.names, "%s: names %r != %r" % (what, names, exp.names))
    ts = [(e[3][0], 2 ** e[3][1]) for e in events if e[1] == "meta" and e[2] == 0x58]
    need(ts == exp.timesigs, "%s: time signatures %r != %r" % (what, ts, exp.timesigs))
    ks = [(e[3][0] - 256 if e[3][0] > 127 else e[3][0], e[3][1]) for e in events if e[1] == "meta" and e[2] == 0x59]
    need(ks == exp.keysigs, "%s: key signatures %r != %r" % (what, ks, exp.keysigs))
    progs = [(e[3], e[4][0]) for e in events if e[1] == "chan" and e[2] == 0xC]
    need(progs == exp.programs, "%s: program changes %r != %r" % (what, progs, exp.programs))
    banks = [e[3] for e in events if e[1] == "chan" and e[2] == 0xB and e[4][0] == 0]
    need(banks == [p[0] for p in exp.programs], "%s: bank selects %r" % (what, banks))
    need(events[-1][1] == "meta" and events[-1][2] == 0x2F, "%s: last event not EOT" % what)


def load():
    with open(PATH, "rb") as f:
        return parse_smf(f.read())


# ---------------------------------------------------------------- generators
VALUES = [1, 2, 4, 8, 16, 32, 64, 128, 3, 6, 12, 24, 5, 7, 9, 10, 20, 8 / 3.0, 16 / 3.0, 4 / 3.0, 1.5]
METERS = [(4, 4), (3, 4), (2, 4), (6, 8), (5, 4), (7, 8), (2, 2), (12, 8), (9, 16), (1, 1), (3, 2)]
KEYS = major_keys + minor_keys
NAMES = ["C", "C#", "Db", "D", "Eb", "E", "F", "F#", "G", "Ab", "A", "Bb", "B", "Cb", "E#"]


def rnd_note(rng):
    while True:
        n = Note(rng.choice(NAMES), rng.randint(0, 9))
        if 0 <= int(n) + 12 <= 127:
            break
    n.channel = rng.randint(0, 15)
    n.velocity = rng.choice([0, 1, 63, 64, 100, 127, rng.randint(0, 127)])
    return n


def rnd_container(rng, size=None):
    nc = NoteContainer()
    size = size or rng.choice([1, 1, 1, 2, 3, 4, 5])
    for i in range(size):
        nc.add_note(rnd_note(rng))
    return nc


def rnd_bar(rng, key, pattern=None):
    bar = Bar(key, rng.choice(METERS))
    n = rng.randint(1, 7)
    for i in range(n):
        value = rng.choice(VALUES)
        if pattern == "lead" and i == 0:
            rest = True
        elif pattern == "trail" and i == n - 1:
            rest = True
        elif pattern == "whole":
            rest = True
        elif pattern == "none":
            rest = False
        else:
            rest = rng.random() < 0.3
        ok = bar.place_rest(value) if rest else bar.place_notes(rnd_container(rng), value)
        if not ok:
            break
    return bar


def rnd_track(rng, keyiter, with_instr=None):
    t = Track()
    if with_instr if with_instr is not None else rng.random() < 0.6:
        mi = MidiInstrument()
        mi.instrument_nr = rng.choice([0, 1, 13, 40, 73, 127, rng.randint(0, 127)])
        t.instrument = mi
    t.name = rng.choice(["Untitled", "Lead", "x", "Bass line 2", "A" * 130, "violin I"])
    for i in range(rng.randint(1, 4)):
        t.add_bar(rnd_bar(rng, next(keyiter), rng.choice([None, None, "lead", "trail", "whole", "none"])))
    return t


def cycle_keys(start):
    i = start
    while True:
        yield KEYS[i % len(KEYS)]
        i += 1


# ---------------------------------------------------------------- checks
def check_vlq():
    mt = MidiTrack()

    def std(v):
        out = [v & 0x7F]
        v >>= 7
        while v:
            out.append((v & 0x7F) | 0x80)
            v >>= 7
        return bytes(reversed(out))

    vals = set(range(0, 70000))
    for k in range(1, 29):
        for d in range(-40, 41):
            v = 2 ** k + d
            if 0 <= v < 2 ** 28:
                vals.add(v)
    for k in (1, 2, 3):
        for d in range(-300, 301):
            if 128 ** k + d >= 0:
                vals.add(128 ** k + d)
    vals.update(range(2 ** 28 - 3000, 2 ** 28))
    vals.update(range(2 ** 21 - 3000, 2 ** 21 + 3000))
    rng = random.Random(5)
    vals.update(rng.randrange(2 ** 28) for i in range(20000))
    for v in sorted(vals):
        got = mt.int_to_varbyte(v)
        need(isinstance(got, bytes) and got == std(v), "VLQ(%d) = %r, expected %r" % (v, got, std(v)))
    NCASES[0] += 1


def check_note(rng, repeat, bpm):
    n = rnd_note(rng)
    need(midi_file_out.write_Note(PATH, n, bpm, repeat) is True, "write_Note returned non-True")
    tracks = load()
    need(len(tracks) == 1, "write_Note: track count")
    exp = Expect(bpm)
    for i in range(repeat + 1):
        exp.entry([n], 72)
    compare(tracks[0], exp, "write_Note(%r, rep=%d)" % (n, repeat))
    NCASES[0] += 1


def check_container(rng, repeat, bpm, size=None):
    nc = rnd_container(rng, size)
    need(midi_file_out.write_NoteContainer(PATH, nc, bpm, repeat) is True, "write_NoteContainer non-True")
    tracks = load()
    need(len(tracks) == 1, "write_NoteContainer: track count")
    exp = Expect(bpm)
    for i in range(repeat + 1):
        exp.entry(list(nc), 72)
    compare(tracks[0], exp, "write_NoteContainer(%r, rep=%d)" % (nc, repeat))
    NCASES[0] += 1


def check_bar(rng, key, repeat, bpm, pattern):
    bar = rnd_bar(rng, key, pattern)
    need(midi_file_out.write_Bar(PATH, bar, bpm, repeat) is True, "write_Bar non-True")
    tracks = load()
    need(len(tracks) == 1, "write_Bar: track count")
    exp = Expect(bpm)
    for i in range(repeat + 1):
        exp.bar(bar)
    compare(tracks[0], exp, "write_Bar(%r, rep=%d)" % (bar, repeat))
    NCASES[0] += 1


def check_track(rng, keyiter, repeat, bpm, with_instr=None):
    tr = rnd_track(rng, keyiter, with_instr)
    need(midi_file_out.write_Track(PATH, tr, bpm, repeat) is True, "write_Track non-True")
    tracks = load()
    need(len(tracks) == 1, "write_Track: track count")
    exp = Expect(bpm)
    for i in range(repeat + 1):
        exp.track(tr)
    compare(tracks[0], exp, "write_Track(%r, rep=%d)" % (tr, repeat))
    NCASES[0] += 1


def check_composition(rng, keyiter, ntracks, repeat, bpm):
    c = Composition()
    for i in range(ntracks):
        c.add_track(rnd_track(rng, keyiter))
    need(midi_file_out.write_Composition(PATH, c, bpm, repeat) is True, "write_Composition non-True")
    tracks = load()
    need(len(tracks) == ntracks, "write_Composition: %d chunks for %d tracks" % (len(tracks), ntracks))
    for i in range(ntracks):
        exp = Expect(bpm)
        for r in range(repeat + 1):
            exp.track(c.tracks[i])
        compare(tracks[i], exp, "write_Composition track %d/%d rep=%d" % (i, ntracks, repeat))
    NCASES[0] += 1


def check_systematic():
    """Hand-made cases: every key, every channel/velocity, rests in all positions."""
    for key in KEYS:
        b = Bar(key, (4, 4))
        b.place_notes(Note("C", 4), 4)
        b.place_rest(4)
        b.place_notes(NoteContainer(["E-4", "G-4"]), 2)
        midi_file_out.write_Bar(PATH, b, 120, 1)
        exp = Expect(120)
        exp.bar(b)
        exp.bar(b)
        compare(load()[0], exp, "key %s" % key)
        NCASES[0] += 1
    for ch in range(16):
        for vel in (0, 1, 64, 126, 127):
            n = Note("A", 4, velocity=vel, channel=ch)
            midi_file_out.write_Note(PATH, n, 90, 2)
            exp = Expect(90)
            for i in range(3):
                exp.entry([n], 72)
            compare(load()[0], exp, "ch %d vel %d" % (ch, vel))
            NCASES[0] += 1
    # lowest and highest notes in MIDI range
    for n in (Note("C", 0), Note("G", 9), Note("Db", 0), Note("F#", 9)):
        midi_file_out.write_Note(PATH, n, 120, 0)
        exp = Expect(120)
        exp.entry([n], 72)
        compare(load()[0], exp, "extreme %r" % n)
        NCASES[0] += 1
    # rests: leading, trailing, whole-bar, between; with instrument on odd channel
    for layout in ("rnnn", "nnnr", "rrrr", "nrrn", "rnrn", "rrnr", "nnnn", "rrrn"):
        for rep in (0, 2):
            t = Track()
            mi = MidiInstrument()
            mi.instrument_nr = 42
            t.instrument = mi
            t.name = "sys " + layout
            for barno in range(3):
                b = Bar("eb" if barno == 1 else "F#", (4, 4))
                for ch in (layout if barno != 1 else layout[::-1]):
                    if ch == "r":
                        b.place_rest(4)
                    else:
                        b.place_notes(NoteContainer([Note("D", 3, channel=9, velocity=77), Note("F#", 5, channel=3, velocity=5)]), 4)
                t.add_bar(b)
            midi_file_out.write_Track(PATH, t, 150, rep)
            exp = Expect(150)
            for i in range(rep + 1):
                exp.track(t)
            compare(load()[0], exp, "layout %s rep %d" % (layout, rep))
            NCASES[0] += 1
    # every value, alone in a generous bar, followed by a marker note
    for v in VALUES:
        b = Bar("C", (16, 4))
        b.place_rest(v)
        b.place_notes("C-4", v)
        b.place_notes(["C-4", "E-4"], v)
        b.place_rest(v)
        b.place_notes("C-4", 4)
        midi_file_out.write_Bar(PATH, b, 120, 1)
        exp = Expect(120)
        exp.bar(b)
        exp.bar(b)
        compare(load()[0], exp, "value %r" % v)
        NCASES[0] += 1


def main():
    rng = random.Random(1606)
    bpms = [120, 60, 90, 200, 7, 33, 121, 300, 4]
    check_vlq()
    check_systematic()
    for i in range(40):
        check_note(rng, rng.choice([0, 0, 1, 2, 5]), rng.choice(bpms))
    for i in range(60):
        check_container(rng, rng.choice([0, 0, 1, 3]), rng.choice(bpms), size=[None, 1, 2, 6][i % 4])
    for i in range(90):
        check_bar(rng, KEYS[i % 30], rng.choice([0, 0, 1, 2, 4]), rng.choice(bpms),
                  [None, "lead", "trail", "whole", "none"][i % 5])
    ki = cycle_keys(3)
    for i in range(80):
        check_track(rng, ki, rng.choice([0, 0, 1, 2, 3]), rng.choice(bpms), with_instr=[None, True, False][i % 3])
    for i in range(80):
        check_composition(rng, ki, 1 + i % 4, rng.choice([0, 0, 1, 2]), rng.choice(bpms))


if __name__ == "__main__":
    try:
        main()
    except Bad as e:
        print("C16 VIOLATED: %s" % e)
        sys.exit(1)
    finally:
        try:
            if os.path.exists(PATH):
                os.remove(PATH)
            os.rmdir(TMP)
        except OSError:
            pass
    print("C16 holds on %d cases" % NCASES[0])
    sys.exit(0)
