import mingus, os; assert os.path.realpath(mingus.__file__).startswith(os.path.realpath(os.path.dirname(__file__)))
"""Direct check of property C08 (diatonic harmony) through the public API.

Exit status 0 when the statement holds on all sampled inputs, 1 otherwise.
"""
import sys

from mingus.core import chords, keys, notes, progressions

FAILS = []
CASES = [0]


def check(cond, msg):
    CASES[0] += 1
    if not cond:
        FAILS.append(msg)
        if len(FAILS) > 25:
            finish()


def finish():
    if FAILS:
        print("C08 demo: %d failure(s) in %d cases" % (len(FAILS), CASES[0]))
        for f in FAILS[:25]:
            print("  -", f)
        sys.exit(1)
    print("C08 demo: property holds on %d cases" % CASES[0])
    sys.exit(0)


MAJOR = ["Cb", "Gb", "Db", "Ab", "Eb", "Bb", "F", "C", "G", "D", "A", "E", "B", "F#", "C#"]
MINOR = ["ab", "eb", "bb", "f", "c", "g", "d", "a", "e", "b", "f#", "c#", "g#", "d#", "a#"]
ALL_KEYS = MAJOR + MINOR
assert len(ALL_KEYS) == 30

LETTERS = "CDEFGAB"
NUMERALS = ["I", "II", "III", "IV", "V", "VI", "VII"]
FUNCTIONS = ["tonic", "supertonic", "mediant", "subdominant", "dominant", "submediant", "subtonic"]
# the casing in which the chord-to-numeral direction answers
DET_NUMERALS = ["I", "ii", "iii", "IV", "V", "vi", "vii"]
PREFIXES = ["bbb", "bb", "b", "", "#", "##", "###"]
SUFFIXES = sorted(chords.chord_shorthand.keys())
MAJOR_STEPS = [0, 2, 4, 5, 7, 9, 11]
MINOR_STEPS = [0, 2, 3, 5, 7, 8, 10]


def pc(note):
    return notes.note_to_int(note)


def prefix_value(p):
    return p.count("#") - p.count("b")


def shifted_ok(base, got, n):
    """got is base with every note moved n semitones, keeping letters."""
    if len(base) != len(got):
        return False
    for b, g in zip(base, got):
        if b[0] != g[0] or (pc(g) - pc(b)) % 12 != n % 12:
            return False
    return True


# ---------------------------------------------------------------------------
# 1. the seven triads / sevenths are stacks of thirds inside the key's notes;
#    function names, numeral aliases and progression strings all denote them
# ---------------------------------------------------------------------------
for key in ALL_KEYS:
    ks = keys.get_notes(key)
    # independent sanity check of what "the key's notes" are
    tonic = key[0].upper() + key[1:]
    steps = MAJOR_STEPS if key[0].isupper() else MINOR_STEPS
    check(ks[0] == tonic, "key %s: first note %r" % (key, ks[0]))
    start = LETTERS.index(tonic[0])
    check(
        [n[0] for n in ks] == [LETTERS[(start + i) % 7] for i in range(7)],
        "key %s: letters %r" % (key, ks),
    )
    check(
        [(pc(n) - pc(ks[0])) % 12 for n in ks] == steps,
        "key %s: scale steps %r" % (key, ks),
    )

    all_tri = chords.triads(key)
    all_sev = chords.sevenths(key)
    for d in range(7):
        tri = [ks[d], ks[(d + 2) % 7], ks[(d + 4) % 7]]
        sev = tri + [ks[(d + 6) % 7]]
        up, lo = NUMERALS[d], NUMERALS[d].lower()

        check(all_tri[d] == tri, "triads(%s)[%d] = %r" % (key, d, all_tri[d]))
        check(all_sev[d] == sev, "sevenths(%s)[%d] = %r" % (key, d, all_sev[d]))
        check(chords.triad(ks[d], key) == tri, "triad(%s,%s)" % (ks[d], key))
        check(chords.seventh(ks[d], key) == sev, "seventh(%s,%s)" % (ks[d], key))

        # function names
        check(getattr(chords, FUNCTIONS[d])(key) == tri, "%s(%s)" % (FUNCTIONS[d], key))
        check(getattr(chords, FUNCTIONS[d] + "7")(key) == sev, "%s7(%s)" % (FUNCTIONS[d], key))

        # numeral aliases (upper case always exists, lower case for the minor degrees)
        for name in (up, lo):
            if hasattr(chords, name):
                check(getattr(chords, name)(key) == tri, "chords.%s(%s)" % (name, key))
                check(
                    getattr(chords, name + "7")(key) == sev,
                    "chords.%s7(%s)" % (name, key),
                )
        check(hasattr(chords, up) and hasattr(chords, up + "7"), "alias %s missing" % up)
        if d in (1, 2, 5, 6):
            check(hasattr(chords, lo) and hasattr(chords, lo + "7"), "alias %s missing" % lo)

        # progression strings in both cases, as a bare string and inside a list
        for name in (up, lo):
            check(progressions.to_chords(name, key) == [tri], "to_chords(%r,%s)" % (name, key))
            check(progressions.to_chords([name], key) == [tri], "to_chords([%r],%s)" % (name, key))
            check(
                progressions.to_chords(name + "7", key) == [sev],
                "to_chords(%r,%s)" % (name + "7", key),
            )
        check(
            progressions.to_chords([up, lo + "7", up + "7"], key) == [tri, sev, sev],
            "to_chords(list of three) degree %d key %s" % (d, key),
        )

        # results are the caller's to keep: mutating them does not poison later answers
        got = getattr(chords, FUNCTIONS[d])(key)
        got.append("X")
        got[0] = "Y"
        check(getattr(chords, FUNCTIONS[d])(key) == tri, "cache poisoned %s(%s)" % (FUNCTIONS[d], key))
        got = progressions.to_chords(up + "7", key)[0]
        got[0] = "Y"
        check(progressions.to_chords(up + "7", key) == [sev], "cache poisoned to_chords %s7 %s" % (up, key))

        # 2. accidental prefixes shift every note by one semitone each
        for p in PREFIXES:
            n = prefix_value(p)
            for name, base in ((up, tri), (lo, tri), (up + "7", sev), (lo + "7", sev)):
                r = progressions.to_chords(p + name, key)
                check(
                    len(r) == 1 and shifted_ok(base, r[0], n),
                    "to_chords(%r,%s) = %r" % (p + name, key, r),
                )

    # default key is C
check(progressions.to_chords(["I", "V7"]) == [["C", "E", "G"], ["G", "B", "D", "F"]], "default key")

# ---------------------------------------------------------------------------
# 3. a chord suffix rebuilds that chord type on the degree's root
# ---------------------------------------------------------------------------
for ki, key in enumerate(ALL_KEYS):
    ks = keys.get_notes(key)
    for d in range(7):
        for si, suffix in enumerate(SUFFIXES):
            if suffix in ("", "7"):
                continue  # diatonic, handled above
            # every key x degree x suffix, with a rotating prefix and case
            p = PREFIXES[(ki + d + si) % 7]
            name = NUMERALS[d] if (ki + si) % 2 else NUMERALS[d].lower()
            base = chords.chord_shorthand[suffix](ks[d])
            r = progressions.to_chords(p + name + suffix, key)
            check(
                len(r) == 1 and shifted_ok(base, r[0], prefix_value(p)),
                "to_chords(%r,%s) = %r, want %r shifted %d"
                % (p + name + suffix, key, r, base, prefix_value(p)),
            )
            if p == "":
                check(r == [base], "to_chords(%r,%s) exact" % (name + suffix, key))
            check(
                base == chords.from_shorthand(ks[d] + suffix),
                "chord_shorthand[%r](%s) vs from_shorthand" % (suffix, ks[d]),
            )

# unrecognised numerals give the documented empty answer
for bad in ["IIII", "VIII", "IIV", "VV", "IVI", "", "X", "bX7", "#", "bb", "m7", "viiii7", "IIIIdim"]:
    for key in ("C", "f#", "Gb"):
        check(progressions.to_chords(bad, key) == [], "to_chords(%r,%s) not []" % (bad, key))
        check(progressions.to_chords(["I", bad, "V"], key) == [], "to_chords([I,%r,V],%s)" % (bad, key))

# ---------------------------------------------------------------------------
# 4. chord -> function / numeral in every major key, and the two directions
#    are inverse on diatonic harmony
# ---------------------------------------------------------------------------
for key in MAJOR:
    tris, sevs = chords.triads(key), chords.sevenths(key)
    for d in range(7):
        tri, sev = tris[d], sevs[d]
        r = progressions.determine(tri, key)
        check(r and r[0] == FUNCTIONS[d], "determine(%r,%s) = %r" % (tri, key, r))
        r = progressions.determine(sev, key)
        check(r and r[0] == FUNCTIONS[d] + " seventh", "determine(%r,%s) = %r" % (sev, key, r))
        r = progressions.determine(tri, key, True)
        check(r and r[0] == DET_NUMERALS[d], "determine(%r,%s,True) = %r" % (tri, key, r))
        if r:
            check(progressions.to_chords(r[0], key) == [tri], "round trip triad %d in %s" % (d, key))
        r = progressions.determine(sev, key, True)
        check(r and r[0] == DET_NUMERALS[d] + "7", "determine(%r,%s,True) = %r" % (sev, key, r))
        if r:
            check(progressions.to_chords(r[0], key) == [sev], "round trip seventh %d in %s" % (d, key))
        # numeral -> chord -> numeral
        for name in (DET_NUMERALS[d], DET_NUMERALS[d] + "7"):
            ch = progressions.to_chords(name, key)[0]
            check(
                progressions.determine(ch, key, True)[0] == name,
                "numeral %s in %s does not come back" % (name, key),
            )
    # lists of chords are answered element-wise
    r = progressions.determine([tris[0], sevs[4]], key, True)
    check(
        len(r) == 2 and r[0][0] == "I" and r[1][0] == "V7",
        "determine(list) in %s = %r" % (key, r),
    )

# ---------------------------------------------------------------------------
# 5. parse followed by format leaves numeral strings unchanged
# ---------------------------------------------------------------------------
for p in PREFIXES:
    for d, num in enumerate(NUMERALS):
        for suffix in SUFFIXES:
            s = p + num + suffix
            t = progressions.parse_string(s)
            check(t == (num, prefix_value(p), suffix), "parse_string(%r) = %r" % (s, t))
            check(progressions.tuple_to_string(t) == s, "format(parse(%r)) = %r" % (s, progressions.tuple_to_string(t)))
            lo = p + num.lower() + suffix
            check(progressions.parse_string(lo) == t, "parse_string(%r) differs from upper case" % lo)

# ---------------------------------------------------------------------------
# 6. substitution rules
# ---------------------------------------------------------------------------
def well_formed(s):
    if not isinstance(s, str):
        return False
    roman, acc, suffix = progressions.parse_string(s)
    # a numeral is well formed when it reads as accidentals + known numeral +
    # known chord suffix (mixed accidentals such as '#bVII' are readable too)
    return (
        roman in NUMERALS
        and suffix in chords.chord_shorthand
        and s.endswith(roman + suffix)
        and set(s[: len(s) - len(roman + suffix)]) <= set("#b")
        and isinstance(acc, int)
    )


def root_pc(numeral, key):
    r = progressions.to_chords(numeral, key)
    assert r, "no chord for %r" % numeral
    return pc(r[0][0])


def triad_pcs(numeral, key):
    roman, acc, _ = progressions.parse_string(numeral)
    r = progressions.to_chords(progressions.tuple_to_string((roman, acc, "")), key)
    return set(pc(n) for n in r[0])


KEY_SPREAD = {}
for i, s in enumerate(SUFFIXES):
    KEY_SPREAD[s] = [MAJOR[i % 15], MAJOR[(i + 7) % 15]]
for s in ("", "7", "m", "m7", "M", "M7", "dim", "dim7"):
    KEY_SPREAD[s] = MAJOR  # the suffixes the rules react to: every major key

for p in PREFIXES:
    for num in NUMERALS:
        for suffix in SUFFIXES:
            src = p + num + suffix
            prog = ["I", src, "V7"]
            snapshot = list(prog)
            src_keys = KEY_SPREAD[suffix]

            # harmonic
            for ignore in (False, True):
                res = progressions.substitute_harmonic(prog, 1, ignore)
                check(prog == snapshot, "substitute_harmonic changed the progression %r" % src)
                check(isinstance(res, list) and all(well_formed(x) for x in res), "substitute_harmonic(%r) = %r" % (src, res))
                if suffix in ("", "7") or ignore:
                    for x in res:
                        for key in src_keys:
                            check(
                                len(triad_pcs(src, key) & triad_pcs(x, key)) == 2,
                                "harmonic substitute %r for %r in %s does not share two notes" % (x, src, key),
                            )
                else:
                    check(res == [], "substitute_harmonic(%r) should be empty: %r" % (src, res))

            # minor for major: root a minor third above
            res = progressions.substitute_minor_for_major(prog, 1)
            check(prog == snapshot, "substitute_minor_for_major changed the progression %r" % src)
            check(isinstance(res, list) and all(well_formed(x) for x in res), "substitute_minor_for_major(%r) = %r" % (src, res))
            applies = suffix in ("m", "m7") or (suffix == "" and num in ("II", "III", "VI"))
            check(bool(res) == applies, "substitute_minor_for_major(%r) = %r" % (src, res))
            for x in res:
                want = {"m": "M", "m7": "M7", "": ""}[suffix]
                check(progressions.parse_string(x)[2] == want, "minor_for_major suffix %r -> %r" % (src, x))
                for key in src_keys:
                    check(
                        (root_pc(x, key) - root_pc(src, key)) % 12 == 3,
                        "minor_for_major %r -> %r in %s: not a minor third" % (src, x, key),
                    )

            # major for minor: root a major sixth above
            res = progressions.substitute_major_for_minor(prog, 1)
            check(prog == snapshot, "substitute_major_for_minor changed the progression %r" % src)
            check(isinstance(res, list) and all(well_formed(x) for x in res), "substitute_major_for_minor(%r) = %r" % (src, res))
            applies = suffix in ("M", "M7") or (suffix == "" and num in ("I", "IV", "V"))
            check(bool(res) == applies, "substitute_major_for_minor(%r) = %r" % (src, res))
            for x in res:
                want = {"M": "m", "M7": "m7", "": ""}[suffix]
                check(progressions.parse_string(x)[2] == want, "major_for_minor suffix %r -> %r" % (src, x))
                for key in src_keys:
                    check(
                        (root_pc(x, key) - root_pc(src, key)) % 12 == 9,
                        "major_for_minor %r -> %r in %s: not a major sixth" % (src, x, key),
                    )

            # diminished for diminished: cycle of minor thirds
            res = progressions.substitute_diminished_for_diminished(prog, 1)
            check(prog == snapshot, "substitute_diminished_for_diminished changed the progression %r" % src)
            check(isinstance(res, list) and all(well_formed(x) for x in res), "substitute_diminished_for_diminished(%r) = %r" % (src, res))
            applies = suffix in ("dim", "dim7") or (suffix == "" and num == "VII")
            check(bool(res) == applies, "substitute_diminished_for_diminished(%r) = %r" % (src, res))
            if applies:
                want = suffix or "dim"
                check(len(res) == 3, "dim_for_dim(%r) gives %d answers" % (src, len(res)))
                check(all(progressions.parse_string(x)[2] == want for x in res), "dim_for_dim suffix %r -> %r" % (src, res))
                for key in src_keys:
                    steps = sorted((root_pc(x, key) - root_pc(src, key)) % 12 for x in res)
                    check(steps == [3, 6, 9], "dim_for_dim %r -> %r in %s: steps %r" % (src, res, key, steps))

            # diminished for dominant has no documented promise beyond being a
            # substitution rule: numerals only, caller's list untouched
            res = progressions.substitute_diminished_for_dominant(prog, 1)
            check(prog == snapshot, "substitute_diminished_for_dominant changed the progression %r" % src)
            check(isinstance(res, list) and all(well_formed(x) for x in res), "substitute_diminished_for_dominant(%r) = %r" % (src, res))

            # the combined rule, recursion depth 0..2
            for depth in (0, 1, 2):
                res = progressions.substitute(prog, 1, depth)
                check(prog == snapshot, "substitute depth %d changed the progression %r" % (depth, src))
                bad = [x for x in res if not well_formed(x)]
                check(isinstance(res, list) and not bad, "substitute(%r, depth %d) ill-formed: %r" % (src, depth, bad[:5]))
                if depth == 0:
                    for x in res:
                        for key in src_keys[:2]:
                            check(
                                len(progressions.to_chords(x, key)) == 1,
                                "substitute(%r) answer %r denotes no chord in %s" % (src, x, key),
                            )

# index other than 1, and the documented examples
prog = ["I", "IV", "V", "I"]
check(sorted(progressions.substitute(prog, 0)) == sorted(["III", "III7", "VI", "VI7", "I7"]), "substitute doc example")
check(prog == ["I", "IV", "V", "I"], "substitute doc example changed its input")
check(progressions.substitute_minor_for_major(["VI"], 0) == ["I"], "doc example VI")
check(progressions.substitute_minor_for_major(["Vm"], 0) == ["bVIIM"], "doc example Vm")
check(progressions.substitute_minor_for_major(["VIm7"], 0) == ["IM7"], "doc example VIm7")
check(progressions.substitute_major_for_minor(["I"], 0) == ["VI"], "doc example I")
check(progressions.substitute_major_for_minor(["VM7"], 0) == ["IIIm7"], "doc example VM7")
check(
    sorted(progressions.substitute_diminished_for_diminished(["VII"], 0)) == sorted(["IIdim", "IVdim", "bVIdim"]),
    "VII -> IIdim, IVdim, bVIdim",
)

finish()
