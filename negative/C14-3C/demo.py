import mingus, os; assert os.path.realpath(mingus.__file__).startswith(os.path.realpath(os.path.dirname(__file__)))
# Direct check of property C14 (tracks and compositions accumulate music
# faithfully) through the public API.  Exit 0 when it holds, 1 otherwise.
import random
import sys
from fractions import Fraction

from mingus.containers import Bar, Composition, Note, NoteContainer, Track
from mingus.containers.instrument import Guitar, Instrument, MidiInstrument, Piano
from mingus.containers.mt_exceptions import InstrumentRangeError
import mingus.core.value as value

CASES = [0]


class Failure(Exception):
    pass


def check(cond, msg, *args):
    CASES[0] += 1
    if not cond:
        raise Failure(msg % args if args else msg)


def spell(nc):
    """Contents of a stored entry: None for a rest, else (name, octave) list."""
    if nc is None:
        return None
    return [(n.name, n.octave) for n in nc.notes]


def expected_spell(item):
    if item is None:
        return None
    if isinstance(item, NoteContainer):
        return spell(item)
    return spell(NoteContainer(item))


def snapshot(track):
    """(per-bar entry counts, flat list of (value, contents))."""
    flat = [(d, spell(n)) for (_b, d, n) in track.get_notes()]
    per_bar = [len(b) for b in track.bars]
    return per_bar, flat


def frac_len(v):
    return 1 / Fraction(v).limit_denominator(10 ** 6)


def bar_used(bar):
    return sum((frac_len(e[1]) for e in bar.bar), Fraction(0))


def bar_len(bar):
    if bar.meter == (0, 0):
        return None
    return Fraction(bar.meter[0], bar.meter[1])


def check_structure(track, accepted, where):
    # iteration gives exactly the accepted items, in order
    flat = [(d, spell(n)) for (_b, d, n) in track.get_notes()]
    check(len(flat) == len(accepted), "%s: %d entries, %d accepted", where, len(flat), len(accepted))
    for i, ((d, s), (ed, es)) in enumerate(zip(flat, accepted)):
        check(d == ed, "%s: entry %d has value %r, expected %r", where, i, d, ed)
        check(s == es, "%s: entry %d has contents %r, expected %r", where, i, s, es)
    # bar by bar iteration agrees with get_notes
    via_bars = []
    for i in range(len(track)):
        for e in track[i]:
            via_bars.append((e[1], spell(e[2])))
    check(via_bars == flat, "%s: indexing the bars and get_notes disagree", where)
    via_iter = []
    for b in track:
        for e in b:
            via_iter.append((e[1], spell(e[2])))
    check(via_iter == flat, "%s: iterating the track and get_notes disagree", where)
    # every bar except the last is full
    for i, b in enumerate(track.bars[:-1]):
        check(b.is_full(), "%s: bar %d of %d is not full", where, i, len(track.bars))
        L = bar_len(b)
        check(L is not None and abs(bar_used(b) - L) < Fraction(1, 500), "%s: bar %d holds %s of %s", where, i, bar_used(b), L)
    check(track.test_integrity() is True, "%s: test_integrity", where)
    # lengths
    tot_entries = sum(1.0 / d for d, _ in flat)
    tot_accepted = sum(1.0 / d for d, _ in accepted)
    check(abs(tot_entries - tot_accepted) < 1e-9, "%s: total length %r vs %r", where, tot_entries, tot_accepted)
    # beats inside a bar are the running sums
    for i, b in enumerate(track.bars):
        run = 0.0
        for e in b.bar:
            check(abs(e[0] - run) < 1e-9, "%s: bar %d entry at beat %r, expected %r", where, i, e[0], run)
            run += 1.0 / e[1]
        check(abs(b.current_beat - run) < 1e-9, "%s: bar %d current_beat", where, i)
        L = bar_len(b)
        if L is not None:
            check(run <= float(L) + 1e-6, "%s: bar %d overfull", where, i)
    check(len(track) == len(track.bars), "%s: len", where)


VALUES = [1, 2, 4, 8, 16, 32, 3, 6, 12, 24, 5, 4.0, 8.0, value.dots(4), value.dots(8), value.dots(2), value.triplet(8), 0.5, 64, 128]
METERS = [(4, 4), (3, 4), (6, 8), (2, 2), (5, 4), (7, 8), (2, 4), (12, 8), (1, 1), (3, 8)]
KEYS = ["C", "G", "a", "F#", "Bb", "e", "Db", "c#"]
IN_ALL = ["C", "E", "G-4", "A-5", "Bb-4", "F#-5", "E-3", "E-7", ["C", "E", "G"], ["A-4", "C-5", "E-5"], ["E-3", "B-3", "E-4"]]
LOW = ["C-0", "E-0", "D#-0", ["C-0", "G-4"]]          # below piano and guitar
MID_LOW = ["C-2", "A-1", "D-3", ["C-2", "E-4"]]        # below guitar only
HIGH = ["C-9", "D-12", ["C-4", "E-9"]]                 # above everything
C8 = ["C-8"]                                             # generic only (+piano)
TOP = ["B-8", "A#-8"]                                   # piano, midi; not generic


def instruments():
    return [None, Instrument(), Piano(), Guitar(), MidiInstrument(), MidiInstrument("Flute")]


def playable(ins, item):
    """Independent statement of the range rule, on note numbers."""
    if ins is None or item is None:
        return True
    nc = item if isinstance(item, NoteContainer) else NoteContainer(item)
    lo, hi = int(Note(ins.range[0])), int(Note(ins.range[1]))
    if isinstance(ins, Guitar) and len(nc) > 6:
        return False
    return all(lo <= int(n) <= hi for n in nc.notes)


def make_item(rnd, pool):
    x = rnd.choice(pool)
    form = rnd.randrange(4)
    if isinstance(x, list):
        if form == 0:
            return NoteContainer(x)
        if form == 1:
            return [Note(n) for n in x] if all("-" in n for n in x) else list(x)
        return list(x)
    if form == 0:
        return Note(x)
    if form == 1:
        return NoteContainer(x)
    return x


def run_sequence(rnd, seqno):
    ins = rnd.choice(instruments())
    t = Track(ins) if rnd.random() < 0.8 else Track(instrument=ins)
    where = "seq %d (%r)" % (seqno, ins)
    accepted = []
    if rnd.random() < 0.6:
        key, meter = rnd.choice(KEYS), rnd.choice(METERS)
        if rnd.random() < 0.1:
            meter = (0, 0)
        r = t.add_bar(Bar(key, meter)) if rnd.random() < 0.5 else t + Bar(key, meter)
        check(r is t, "%s: add_bar does not return the track", where)
        check(len(t) == 1 and t[0].key.key == key and t[0].meter == meter, "%s: add_bar", where)
    pool_bad = LOW + MID_LOW + HIGH + C8 + TOP
    n_ops = rnd.choice([3, 8, 15, 30, 60])
    vals = VALUES if rnd.random() < 0.5 else rnd.sample(VALUES, 3)
    for op in range(n_ops):
        w = "%s op %d" % (where, op)
        r = rnd.random()
        if r < 0.2:
            item = None
        elif r < 0.75:
            item = make_item(rnd, IN_ALL)
        else:
            item = make_item(rnd, pool_bad)
        d = rnd.choice(vals)
        before_bars, before_flat = snapshot(t)
        last = t.bars[-1] if t.bars else None
        last_full = last.is_full() if last is not None else None
        last_used = bar_used(last) if last is not None else None
        exp = expected_spell(item)
        ok = playable(ins, item)
        use_plus = item is not None and not isinstance(item, list) and rnd.random() < 0.25
        try:
            if use_plus:
                d = 4
                res = t + item
            elif rnd.random() < 0.15:
                res = t.add_notes(note=item, duration=d)
            elif d == 4 and rnd.random() < 0.5:
                res = t.add_notes(item)
            else:
                res = t.add_notes(item, d)
        except InstrumentRangeError:
            check(not ok, "%s: %r refused though inside the range", w, item)
            check(snapshot(t) == (before_bars, before_flat), "%s: refused note changed the track", w)
            # a repeated refusal is refused again and still changes nothing
            try:
                t.add_notes(item, d)
                check(False, "%s: second attempt accepted", w)
            except InstrumentRangeError:
                pass
            check(snapshot(t) == (before_bars, before_flat), "%s: repeated refusal changed the track", w)
            check_structure(t, accepted, w)
            continue
        check(ok, "%s: %r accepted though outside the range", w, item)
        check(res is True or res is False, "%s: result %r", w, res)
        after_bars, after_flat = snapshot(t)
        if res:
            accepted.append((d, exp))
            check(after_flat == before_flat + [(d, exp)], "%s: accepted item not appended as given", w)
        else:
            check(after_flat == before_flat, "%s: rejected item changed the entries", w)
        # bar opening
        if len(after_bars) > len(before_bars):
            check(len(after_bars) == len(before_bars) + 1, "%s: more than one bar opened", w)
            if last is not None:
                check(last_full, "%s: a bar was opened though the last was not full", w)
                nb = t.bars[-1]
                check(nb.key == last.key and nb.key.key == last.key.key, "%s: key not inherited", w)
                check(nb.meter == last.meter and nb.length == last.length, "%s: meter not inherited", w)
                check(after_bars[:-1] == before_bars, "%s: earlier bars changed", w)
            else:
                nb = t.bars[-1]
                check(nb.key.key == "C" and nb.meter == (4, 4), "%s: first bar not C 4/4", w)
            target_used = Fraction(0)
        else:
            check(last is not None and not last_full, "%s: no bar opened though the last was full", w)
            target_used = last_used
        # acceptance: fits or not (clear cases only)
        L = bar_len(t.bars[-1])
        if L is None:
            check(res is True, "%s: (0, 0) meter refuses", w)
        else:
            room = L - target_used - frac_len(d)
            if room > Fraction(1, 10 ** 5):
                check(res is True, "%s: refused though it fits", w)
            elif room < -Fraction(1, 10 ** 5):
                check(res is False, "%s: accepted though it does not fit", w)
            else:
                check(res is True, "%s: exact fit refused", w)
        check_structure(t, accepted, w)
    return t, accepted


def flatten(chords, duration):
    for c in chords:
        if isinstance(c, list):
            for x in flatten(c, duration * 2):
                yield x
        else:
            yield c, duration


CHORDS = ["C", "Am", "G7", "Dm7", "F", "Em", "Cmaj7", "A7", "Bb", "F#m", "Gsus4", "C6", "Dm|G", "A/G", "D9"]


def random_chordlist(rnd, depth=0):
    out = []
    for _ in range(rnd.randrange(1, 5)):
        r = rnd.random()
        if r < 0.2:
            out.append(None)
        elif r < 0.45 and depth < 3:
            out.append(random_chordlist(rnd, depth + 1))
        else:
            out.append(rnd.choice(CHORDS))
    return out


def run_from_chords(rnd, seqno):
    ins = rnd.choice(instruments())
    t = Track(ins)
    where = "from_chords %d (%r)" % (seqno, ins)
    meter = rnd.choice([(4, 4), (3, 4), (6, 8), (2, 2), (5, 4), (2, 4), (7, 8), (4, 4)])
    key = rnd.choice(KEYS)
    explicit = rnd.random() < 0.7
    if explicit:
        t.add_bar(Bar(key, meter))
    else:
        meter, key = (4, 4), "C"
    L = Fraction(meter[0], meter[1])
    chords = random_chordlist(rnd)
    dur = rnd.choice([1, 2, 4, 8, 1, 2])
    # keep to requests where a piece never needs more than two bars
    if any(Fraction(1, d) > L for _c, d in flatten(chords, dur)):
        dur = 4
        if any(Fraction(1, d) > L for _c, d in flatten(chords, dur)):
            return
    form = rnd.randrange(5)
    if form == 0:
        r = t.from_chords(chords, dur)
    elif form == 1:
        r = t.from_chords(chords=chords, duration=dur)
    elif form == 2:
        r = t.from_chords(tuple(chords), dur)
    elif form == 3:
        r = t.from_chords(iter(chords), dur)
    else:
        if dur == 1:
            r = t.from_chords(chords)
        else:
            r = t.from_chords(chords, duration=dur)
    check(r is t, "%s: from_chords does not return the track", where)
    entries = []
    for bi, b in enumerate(t.bars):
        for e in b.bar:
            entries.append((bi, e[0], e[1], spell(e[2])))
    pos = 0
    total_req = Fraction(0)
    for c, d in flatten(chords, dur):
        want = Fraction(1, d)
        total_req += want
        exp = None if c is None else spell(NoteContainer().from_chord(c))
        got = 0.0
        pieces = 0
        while got < float(want) - 1e-9:
            check(pos < len(entries), "%s: ran out of entries at chord %r", where, c)
            bi, beat, v, s = entries[pos]
            check(s == exp, "%s: entry %d holds %r, expected %r (%r)", where, pos, s, exp, c)
            got += 1.0 / v
            pieces += 1
            pos += 1
            if got < float(want) - 1e-9:
                # split: this piece must end on the bar line
                check(abs(beat + 1.0 / v - float(L)) < 1e-9, "%s: piece of %r ends inside bar %d", where, c, bi)
                check(pos < len(entries) and entries[pos][0] == bi + 1 and entries[pos][1] == 0.0, "%s: second piece of %r not at the start of the next bar", where, c)
        check(abs(got - float(want)) < 1e-9, "%s: %r got length %r, wanted %s", where, c, got, want)
        check(pieces <= 2, "%s: %r in %d pieces", where, c, pieces)
        if pieces == 1:
            check(entries[pos - 1][2] == d, "%s: unsplit %r has value %r, not %r", where, c, entries[pos - 1][2], d)
    check(pos == len(entries), "%s: %d extra entries", where, len(entries) - pos)
    total = sum(1.0 / e[2] for e in entries)
    check(abs(total - float(total_req)) < 1e-9, "%s: total %r, requested %s", where, total, total_req)
    for i, b in enumerate(t.bars[:-1]):
        check(b.is_full(), "%s: bar %d not full", where, i)
    for i, b in enumerate(t.bars):
        check(b.meter == meter and b.key.key == key, "%s: bar %d meter/key %r %r", where, i, b.meter, b.key.key)
    # pieces of a split chord do not share their notes
    seen = {}
    for b in t.bars:
        for e in b.bar:
            if e[2] is not None:
                check(id(e[2]) not in seen, "%s: one container stored twice", where)
                seen[id(e[2])] = e[2]
    check(t.test_integrity() is True, "%s: test_integrity", where)


def replay(ops, ins=None):
    t = Track(ins)
    for item, d in ops:
        t.add_notes(item, d)
    return t


def run_equality(rnd, seqno):
    where = "equality %d" % seqno
    ops = [(rnd.choice([None, "C", "E", "G-5", ["C", "E"], ["A-3", "C-4"]]), rnd.choice([1, 2, 4, 8, 8, 16])) for _ in range(rnd.randrange(0, 14))]
    a, b = replay(ops), replay(ops, Piano())
    check(a == b and b == a, "%s: equal contents, unequal tracks", where)
    check(not (a != b), "%s: != on equal tracks", where)
    check(len(a) == len(b) == len(a.bars), "%s: len", where)
    for i in range(len(a)):
        check(a[i] is a.bars[i] and a[i] == b[i], "%s: indexing", where)
    if len(a):
        check(a[-1] is a.bars[-1], "%s: negative index", where)
        check(a[0:2] == a.bars[0:2], "%s: slice", where)
    # a different track
    ops2 = list(ops)
    if ops2 and rnd.random() < 0.7:
        i = rnd.randrange(len(ops2))
        item, d = ops2[i]
        if rnd.random() < 0.5:
            ops2[i] = ("D-6" if item is None else None, d)
        else:
            ops2[i] = (item, d * 2)
        c = replay(ops2)
        if snapshot(c) != snapshot(a):
            check(not (a == c), "%s: different contents, equal tracks", where)
            check(a != c, "%s: different contents, != False", where)
    else:
        c = replay(ops2)
        for v in (4, 8, 16, 32, 64, 128):
            if c.add_notes("F", v):
                ops2.append(("F", v))
                break
        check(not (a == c) and not (c == a), "%s: longer track equal", where)
    if snapshot(c) == snapshot(a):
        c = replay(ops2)
        for v in (4, 8, 16, 32, 64, 128):
            if c.add_notes("F", v):
                ops2.append(("F", v))
                break
        check(not (a == c) and not (c == a), "%s: longer track equal (2)", where)
    # compositions
    c1, c2 = Composition(), Composition()
    check(c1 == c2 and len(c1) == 0, "%s: empty compositions", where)
    c1.add_track(a)
    check(not (c1 == c2) and len(c1) == 1 and c1[0] is a, "%s: one track", where)
    c2 + b
    check(c1 == c2 and c2[0] is b, "%s: compositions with equal tracks", where)
    c2.add_track(c)
    check(not (c1 == c2) and len(c2) == 2 and c2[1] is c and c2[-1] is c, "%s: two tracks", where)
    c1.add_track(replay(ops2))
    check(c1 == c2, "%s: compositions with equal tracks (2)", where)


def run_composition(rnd, seqno):
    where = "composition %d" % seqno
    comp = Composition()
    n = rnd.randrange(1, 6)
    tracks = []
    for i in range(n):
        tr = Track(rnd.choice([None, Piano(), Instrument(), MidiInstrument()]))
        if rnd.random() < 0.3:
            tr.add_bar(Bar(rnd.choice(KEYS), rnd.choice(METERS)))
        if rnd.random() < 0.5:
            comp.add_track(tr)
        elif rnd.random() < 0.5:
            comp.add_track(track=tr)
        else:
            comp + tr
        tracks.append(tr)
        check(len(comp) == i + 1 and comp[i] is tr, "%s: add_track", where)
        check(list(comp.selected_tracks) == [i], "%s: the new track is not the selected one", where)
    accepted = [[] for _ in tracks]
    for op in range(rnd.randrange(1, 25)):
        if rnd.random() < 0.5:
            sel = sorted(rnd.sample(range(n), rnd.randrange(0, n + 1)))
            if rnd.random() < 0.3:
                sel = list(reversed(sel))
            comp.selected_tracks = sel
        sel = list(comp.selected_tracks)
        item = make_item(rnd, [x for x in IN_ALL if not isinstance(x, list)])
        before = [snapshot(tr) for tr in tracks]
        full_before = [bool(tr.bars) and tr.bars[-1].is_full() for tr in tracks]
        if rnd.random() < 0.5:
            comp.add_note(item)
        elif rnd.random() < 0.5:
            comp.add_note(note=item)
        else:
            comp + item
        for i, tr in enumerate(tracks):
            if i in sel:
                bars_b, flat_b = before[i]
                bars_a, flat_a = snapshot(tr)
                if flat_a != flat_b:
                    check(flat_a == flat_b + [(4, expected_spell(item))], "%s: selected track %d got something else", where, i)
                    accepted[i].append((4, expected_spell(item)))
                else:
                    # refused: a quarter did not fit in what was left
                    b = tr.bars[-1]
                    check(not full_before[i], "%s: selected track %d not reached", where, i)
                    check(bar_len(b) - bar_used(b) < Fraction(1, 4), "%s: selected track %d not reached though there was room", where, i)
            else:
                check(snapshot(tr) == before[i], "%s: unselected track %d changed", where, i)
            check_structure(tr, accepted[i], "%s track %d" % (where, i))
        check(list(comp.selected_tracks) == sel, "%s: selection changed by add_note", where)
        check(len(comp) == n and all(comp[i] is tracks[i] for i in range(n)), "%s: tracks changed", where)


def fixed_cases():
    # rests with every instrument, at the edges of the ranges
    for ins in instruments():
        t = Track(ins)
        check(t.add_notes(None, 4) is True and t.add_notes(None) is True, "rest refused with %r", ins)
        check([spell(n) for _b, _d, n in t.get_notes()] == [None, None], "rests with %r", ins)
        if ins is not None:
            lo, hi = Note(ins.range[0]), Note(ins.range[1])
            for edge in (lo, hi):
                check(t.add_notes(Note(edge), 8) is True, "%r refuses its own edge %r", ins, edge)
            below, above = Note(int(lo) - 1) if int(lo) > 0 else None, Note(int(hi) + 1)
            for out in (below, above):
                if out is None:
                    continue
                snap = snapshot(t)
                for _ in range(3):
                    try:
                        t.add_notes(out, 8)
                        check(False, "%r accepts %r", ins, out)
                    except InstrumentRangeError as e:
                        check(isinstance(e, Exception), "range error class")
                    check(snapshot(t) == snap, "%r: refused %r changed the track", ins, out)
            # a refusal on an empty track leaves it empty
            e = Track(ins)
            try:
                e.add_notes("C-11")
                check(False, "%r accepts C-11", ins)
            except InstrumentRangeError:
                pass
            check(len(e) == 0 and list(e.get_notes()) == [], "%r: refusal on an empty track", ins)
    # guitar: seven notes are too many, six are fine
    g = Track(Guitar())
    six = ["E-3", "A-3", "D-4", "G-4", "B-4", "E-5"]
    check(g.add_notes(NoteContainer(six)) is True, "guitar refuses six notes")
    try:
        g.add_notes(NoteContainer(six + ["A-5"]))
        check(False, "guitar accepts seven notes")
    except InstrumentRangeError:
        pass
    check(len(list(g.get_notes())) == 1, "guitar: refused chord stored")
    # the same container added several times, a long run of one value
    t = Track()
    nc = NoteContainer(["C", "E", "G"])
    for i in range(64):
        check(t.add_notes(nc, 16) is True, "sixteenth %d refused", i)
    check(len(t) == 4 and all(len(b) == 16 for b in t.bars), "64 sixteenths in %r bars" % len(t))
    check_structure(t, [(16, spell(nc))] * 64, "64 sixteenths")
    # a very long track
    t = Track(Piano())
    acc = []
    for i in range(1500):
        item = [None, "C", "G-5", ["D", "F#", "A"]][i % 4]
        d = [4, 8, 8, 2][i % 4]
        if t.add_notes(item, d):
            acc.append((d, expected_spell(item)))
    check_structure(t, acc, "long track")
    check(len(acc) == 1500, "long track: %d accepted" % len(acc))
    # the split in from_chords, spelled out
    t = Track().from_chords(["C", ["Am", None, "G7"], "F"], 2)
    got = [(b, round(1.0 / d, 9), s) for (b, d, s) in [(x[0], x[1], spell(x[2])) for x in t.get_notes()]]
    C, Am, G7, F = [spell(NoteContainer().from_chord(c)) for c in ("C", "Am", "G7", "F")]
    check(got == [(0.0, 0.5, C), (0.5, 0.25, Am), (0.75, 0.25, None), (0.0, 0.25, G7), (0.25, 0.5, F)], "from_chords example: %r", got)
    t = Track()
    t.add_bar(Bar("G", (3, 4)))
    t.from_chords(["G", "D7", None], 2)
    got = [(round(x[0], 9), round(1.0 / x[1], 9), spell(x[2])) for x in t.get_notes()]
    G, D7 = [spell(NoteContainer().from_chord(c)) for c in ("G", "D7")]
    check(got == [(0.0, 0.5, G), (0.5, 0.25, D7), (0.0, 0.25, D7), (0.25, 0.5, None)], "from_chords 3/4 example: %r", got)
    check(len(t) == 2 and t[1].key.key == "G" and t[1].meter == (3, 4), "from_chords 3/4: bars")


def many_chords(rnd):
    # many distinct shorthands in one process, each used several times, with
    # stored chords altered in between
    roots = ["C", "C#", "Db", "D", "Eb", "E", "F", "F#", "G", "Ab", "A", "Bb", "B", "Cb", "E#", "Gb", "D#"]
    kinds = ["", "m", "7", "m7", "M7", "dim", "aug", "sus4", "6", "m6", "9", "11", "13", "7b5", "m/M7", "/G", "|C"]
    names = [r + k for r in roots for k in kinds]
    want = dict((n, spell(NoteContainer().from_chord(n))) for n in names)
    for rep in range(4):
        order = list(names)
        rnd.shuffle(order)
        order = order + order[:40] + [None] + order[-40:]
        t = Track(rnd.choice(instruments()[:3] + instruments()[4:]))
        t.from_chords(order, 4)
        got = [(d, spell(n)) for _b, d, n in t.get_notes()]
        check(len(got) == len(order), "many chords: %d entries for %d chords", len(got), len(order))
        for i, c in enumerate(order):
            check(got[i] == (4, None if c is None else want[c]), "many chords: entry %d (%r) is %r", i, c, got[i])
        check(len(t) == (len(order) + 3) // 4 and t.test_integrity(), "many chords: bars")
        # altering what is stored does not leak into later tracks
        t.transpose("3")
        for b in t.bars:
            for e in b.bar:
                if e[2] is not None and len(e[2]):
                    e[2].notes[0].name = "B"
                    e[2].notes.append(Note("A", 1))
        again = Track().from_chords(order[:30], 2)
        got = [(d, spell(n)) for _b, d, n in again.get_notes()]
        check(got == [(2, None if c is None else want[c]) for c in order[:30]], "many chords: altered notes came back")
    # what cannot be read as a chord is refused every time, and changes nothing
    for bad in ["H", "C{", "C%s", "C%", "Cm\n", "C\u00e9", "{0}", "Xm7", "Cfoo"]:
        t = Track().from_chords(["C"], 4)
        snap = snapshot(t)
        for _ in range(2):
            try:
                t.from_chords([bad], 4)
                check(False, "from_chords accepts %r", bad)
            except Failure:
                raise
            except Exception:
                pass
            check(snapshot(t) == snap, "from_chords: refused %r changed the track", bad)


def main():
    rnd = random.Random(20240614)
    try:
        fixed_cases()
        many_chords(rnd)
        for i in range(260):
            run_sequence(rnd, i)
        for i in range(220):
            run_from_chords(rnd, i)
        for i in range(120):
            run_equality(rnd, i)
        for i in range(80):
            run_composition(rnd, i)
    except Failure as e:
        print("C14 FAILS: %s" % e)
        return 1
    print("C14 holds (%d checks)" % CASES[0])
    return 0


if __name__ == "__main__":
    sys.exit(main())
