import mingus, os; assert os.path.realpath(mingus.__file__).startswith(os.path.realpath(os.path.dirname(__file__)))
# Direct check of property C05 through the public API.
import itertools
import random
import sys

from mingus.core import scales, keys, notes

FAIL = []


def bad(msg):
    FAIL.append(msg)
    if len(FAIL) <= 20:
        print("FAIL: " + msg)


LETTERS = "CDEFGAB"
MODE_TONICS = [l + a for l in LETTERS for a in ("", "#", "b", "##", "bb")]
MAJOR_TONICS = [k[0] for k in keys.keys]
MINOR_TONICS = [k[1][0].upper() + k[1][1:] for k in keys.keys]
ALL_KEYS = [k[0] for k in keys.keys] + [k[1] for k in keys.keys]

NAT_MINOR = (2, 1, 2, 2, 1, 2, 2)

# class -> (ascending pattern, tonics, heptatonic?)
SPEC = {
    "Ionian": ((2, 2, 1, 2, 2, 2, 1), MODE_TONICS, True),
    "Dorian": ((2, 1, 2, 2, 2, 1, 2), MODE_TONICS, True),
    "Phrygian": ((1, 2, 2, 2, 1, 2, 2), MODE_TONICS, True),
    "Lydian": ((2, 2, 2, 1, 2, 2, 1), MODE_TONICS, True),
    "Mixolydian": ((2, 2, 1, 2, 2, 1, 2), MODE_TONICS, True),
    "Aeolian": ((2, 1, 2, 2, 1, 2, 2), MODE_TONICS, True),
    "Locrian": ((1, 2, 2, 1, 2, 2, 2), MODE_TONICS, True),
    "Major": ((2, 2, 1, 2, 2, 2, 1), MAJOR_TONICS, True),
    "HarmonicMajor": ((2, 2, 1, 2, 1, 3, 1), MAJOR_TONICS, True),
    "NaturalMinor": (NAT_MINOR, MINOR_TONICS, True),
    "HarmonicMinor": ((2, 1, 2, 2, 1, 3, 1), MINOR_TONICS, True),
    "MelodicMinor": ((2, 1, 2, 2, 2, 2, 1), MINOR_TONICS, True),
    "Bachian": ((2, 1, 2, 2, 2, 2, 1), MINOR_TONICS, True),
    "MinorNeapolitan": ((1, 2, 2, 2, 1, 3, 1), MINOR_TONICS, True),
    "Chromatic": ((1,) * 12, ALL_KEYS, False),
    "WholeTone": ((2,) * 6, MODE_TONICS, False),
    "Octatonic": ((2, 1) * 4, MODE_TONICS, False),
}


def steps(lst):
    return [(notes.note_to_int(b) - notes.note_to_int(a)) % 12 for a, b in zip(lst, lst[1:])]


def make(clsname, tonic, n, how):
    cls = getattr(scales, clsname)
    if how == 0:
        return cls(tonic) if n == 1 else cls(tonic, n)
    if how == 1:
        return cls(tonic, octaves=n)
    return cls(tonic, n)


count = 0
for clsname, (pattern, tonics, hepta) in sorted(SPEC.items()):
    for ti, tonic in enumerate(tonics):
        for n in (1, 2, 3, 5):
            if n > 2 and ti % 3:
                continue
            count += 1
            s = make(clsname, tonic, n, (ti + n) % 3)
            where = "%s(%r, %d)" % (clsname, tonic, n)
            asc = s.ascending()
            desc = s.descending()
            tonic_note = keys.get_notes(tonic)[0] if clsname == "Chromatic" else tonic
            if not isinstance(asc, list) or not isinstance(desc, list):
                bad(where + ": note lists are not lists")
                continue
            if steps(asc) != list(pattern) * n:
                bad(where + ": ascending steps %r" % (steps(asc),))
            if asc[0] != tonic_note or asc[-1] != tonic_note:
                bad(where + ": ascending does not begin/end on the tonic: %r" % (asc,))
            if desc[0] != tonic_note or desc[-1] != tonic_note:
                bad(where + ": descending does not begin/end on the tonic: %r" % (desc,))
            if len(asc) != len(pattern) * n + 1:
                bad(where + ": ascending length")
            if hepta:
                want = [LETTERS[(LETTERS.index(tonic[0]) + i) % 7] for i in range(7 * n + 1)]
                if [x[0] for x in asc] != want:
                    bad(where + ": letters %r" % (asc,))
                if [x[0] for x in desc] != want[::-1]:
                    bad(where + ": descending letters %r" % (desc,))
            # descending form
            if clsname == "MelodicMinor":
                nm = scales.NaturalMinor(tonic, n)
                if desc != nm.descending() or desc != list(reversed(nm.ascending())):
                    bad(where + ": descending is not natural minor: %r" % (desc,))
            elif clsname == "MinorNeapolitan":
                nm = list(reversed(scales.NaturalMinor(tonic, n).ascending()))
                if [x[0] for x in desc] != [x[0] for x in nm]:
                    bad(where + ": descending letters differ from natural minor")
                for i, (a, b) in enumerate(zip(desc, nm)):
                    second = (len(nm) - 1 - i) % 7 == 1
                    if second:
                        if (notes.note_to_int(b) - notes.note_to_int(a)) % 12 != 1:
                            bad(where + ": second not lowered in descending: %r" % (desc,))
                    elif a != b:
                        bad(where + ": descending differs from natural minor at %d" % i)
                if steps(desc[::-1]) != [1, 2, 2, 2, 1, 2, 2] * n:
                    bad(where + ": descending steps")
            elif clsname == "Chromatic":
                # exact reverse as a sequence of pitches (spelling is flat-wards going down)
                if [notes.note_to_int(x) for x in desc] != [notes.note_to_int(x) for x in asc][::-1]:
                    bad(where + ": descending pitches are not the reverse")
            else:
                if desc != asc[::-1]:
                    bad(where + ": descending is not the reverse")
            # degrees
            for d in range(1, len(asc)):
                if s.degree(d) != asc[d - 1] or s.degree(d, "a") != asc[d - 1]:
                    bad(where + ": degree(%d) ascending" % d)
                if s.degree(d, direction="d") != desc[len(desc) - d]:
                    bad(where + ": degree(%d, 'd')" % d)
            # length and equality
            if len(s) != len(asc):
                bad(where + ": len")
            t = make(clsname, tonic, n, 2)
            if not (s == t) or (s != t):
                bad(where + ": not equal to a twin")
            if n > 1:
                u = make(clsname, tonic, n - 1, 1)
                if s == u or not (s != u):
                    bad(where + ": equal to a scale with fewer octaves")
            # lists are fresh
            asc.append("X")
            desc.insert(0, "X")
            if "X" in s.ascending() or "X" in s.descending():
                bad(where + ": returned list is shared")

# equality across classes follows the note lists
for tonic in MAJOR_TONICS:
    if not scales.Major(tonic) == scales.Ionian(tonic):
        bad("Major(%r) != Ionian" % tonic)
    if scales.Major(tonic) == scales.HarmonicMajor(tonic):
        bad("Major(%r) == HarmonicMajor" % tonic)
for tonic in MINOR_TONICS:
    if not scales.NaturalMinor(tonic) == scales.Aeolian(tonic):
        bad("NaturalMinor(%r) != Aeolian" % tonic)
    if scales.MelodicMinor(tonic) == scales.Bachian(tonic):
        bad("MelodicMinor(%r) == Bachian (descending lists differ)" % tonic)
    if scales.MelodicMinor(tonic) != scales.MelodicMinor(tonic, octaves=1):
        bad("MelodicMinor(%r) != itself" % tonic)
    count += 3

# a long one
big = scales.Dorian("F#", 300)
if steps(big.ascending()) != [2, 1, 2, 2, 2, 1, 2] * 300 or len(big) != 2101:
    bad("Dorian('F#', 300)")
if big.degree(2100) != "E" or big.degree(2100, "d") != "E":
    bad("Dorian('F#', 300).degree(2100)")

# ---- recognition --------------------------------------------------------
FAMILY = [c for c in SPEC if getattr(scales, c).type in ("major", "minor")]
assert len(FAMILY) == 7
TABLE = []
for major, minor in keys.keys:
    for c in FAMILY:
        cls = getattr(scales, c)
        tonic = major if cls.type == "major" else minor[0].upper() + minor[1:]
        sc = cls(tonic)
        TABLE.append((sc.name, set(sc.ascending()), set(sc.descending())))
assert len(TABLE) == 105 and len(set(t[0] for t in TABLE)) == 105


def spec(given):
    given = set(given)
    return sorted(name for name, a, d in TABLE if given <= a or given <= d)


rnd = random.Random(5)
POOL = sorted(set(itertools.chain.from_iterable(t[1] | t[2] for t in TABLE))) + ["E#", "Fb", "B#", "Cb", "Gbb", "F##"]
cases = [[], ["C"], ["A", "Bb", "E", "F#", "G"], ["C", "D", "E", "F", "G", "A", "B"], ["H"], ["C", "C#", "D"]]
for name, a, d in TABLE:
    for src in (a, d):
        src = sorted(src)
        cases.append(src)
        cases.append(rnd.sample(src, rnd.randint(1, 6)))
for i in range(150):
    cases.append(rnd.sample(POOL, rnd.randint(1, 5)))
for i, given in enumerate(cases):
    count += 1
    forms = [list(given), tuple(given), iter(list(given)), list(given) + list(given)[:1]]
    arg = forms[i % 4]
    got = scales.determine(arg)
    if not isinstance(got, list):
        bad("determine(%r) returned %r" % (given, type(got)))
        continue
    if sorted(got) != spec(given):
        bad("determine(%r) = %r, expected %r" % (given, sorted(got), spec(given)))
    if i % 4 == 0 and arg != list(given):
        bad("determine changed its argument")
if sorted(scales.determine(notes=["A", "Bb", "E", "F#", "G"])) != sorted(
    ["G melodic minor", "G Bachian", "D harmonic major"]
):
    bad("documented example")

if FAIL:
    print("%d failures in %d cases" % (len(FAIL), count))
    sys.exit(1)
print("ok: %d cases" % count)
sys.exit(0)
