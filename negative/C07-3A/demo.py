import mingus, os; assert os.path.realpath(mingus.__file__).startswith(os.path.realpath(os.path.dirname(__file__)))
"""Direct check of property C07 through the public API.

Exit status 0 when the statement holds on every case tried, 1 (with a message)
otherwise.
"""
import random
import sys

from mingus.core import chords, intervals

LETTERS = "CDEFGAB"
ROOTS21 = [l + a for l in LETTERS for a in ("", "#", "b")]
ROOTS_DOUBLE = [l + a for l in LETTERS for a in ("##", "bb")]
ORDINALS = [
    "",
    ", first inversion",
    ", second inversion",
    ", third inversion",
    ", fourth inversion",
    ", fifth inversion",
    ", sixth inversion",
]
INTERVAL_NAMES = {
    ("C", "E"): "major third",
    ("C", "Eb"): "minor third",
    ("C", "E#"): "augmented third",
    ("C", "Ebb"): "diminished third",
    ("C", "G"): "perfect fifth",
    ("C", "F"): "perfect fourth",
    ("C", "C"): "major unison",
    ("A", "Ab"): "minor unison",
    ("Ab", "A"): "augmented unison",
    ("F#", "Bb"): "minor fourth",
    ("C", "Fbb"): "diminished fourth",
    ("B", "C"): "minor second",
    ("Bb", "A"): "major seventh",
    ("G", "F"): "minor seventh",
    ("E", "C#"): "major sixth",
    ("D", "Ab"): "minor fifth",
}

failures = []
checked = [0]


def fail(msg):
    failures.append(msg)
    if len(failures) >= 15:
        finish()


def finish():
    if failures:
        print("C07 does NOT hold (%d cases checked):" % checked[0])
        for f in failures:
            print("  - " + f)
        sys.exit(1)
    print("C07 holds on %d cases" % checked[0])
    sys.exit(0)


def both_forms(notes_):
    """Return (short, long) answers; record a failure when one raises."""
    try:
        s = chords.determine(list(notes_), True)
        l = chords.determine(list(notes_), False)
    except Exception as e:  # noqa
        fail("determine(%r) raised %s: %s" % (notes_, type(e).__name__, e))
        return None, None
    if not isinstance(s, list) or not isinstance(l, list) or len(s) != len(l):
        fail("determine(%r): short %r and long %r differ in shape" % (notes_, s, l))
        return None, None
    return s, l


def accepted(name, origin):
    """Every shorthand name (and each half of a polychord) must be constructible."""
    parts = [name]
    if "|" in name:
        parts += name.split("|")
    for p in parts:
        try:
            built = chords.from_shorthand(p)
        except Exception as e:  # noqa
            fail("%r: returned name %r is refused by from_shorthand (%s: %s)"
                 % (origin, p, type(e).__name__, e))
            return None
        if not isinstance(built, list) or not built:
            fail("%r: returned name %r builds %r" % (origin, p, built))
            return None
    return chords.from_shorthand(name)


def check_built_chord(root, sh):
    chord = chords.from_shorthand(root + sh)
    if len(chord) < 3:
        # '5' is a two note chord: trivial answer
        if chords.determine(list(chord)) != [intervals.determine(chord[0], chord[1])]:
            fail("two note chord %r: not the trivial answer" % (chord,))
        if chords.determine(list(chord)) != ["perfect fifth"]:
            fail("two note chord %r: %r" % (chord, chords.determine(list(chord))))
        checked[0] += 1
        return
    same_shape = set(
        chords.chord_shorthand_meaning[s]
        for s in chords.chord_shorthand
        if chords.chord_shorthand[s](root) == chord
    )
    for k in range(len(chord)):
        rot = chord[k:] + chord[:k]
        checked[0] += 1
        s, l = both_forms(rot)
        if s is None:
            continue
        found = False
        for i, name in enumerate(s):
            built = accepted(name, rot)
            if built is None:
                continue
            if built == chord and not found:
                wanted = [root + m + ORDINALS[k] for m in same_shape]
                if l[i] in wanted:
                    found = True
        if not found:
            fail("%s%s rotation %d %r: short %r long %r has no matching pair"
                 % (root, sh, k, rot, s, l))
        # the input must not have been disturbed
        if rot != chord[k:] + chord[:k]:
            fail("determine changed its argument %r" % (rot,))


def check_three(a, b, c):
    checked[0] += 1
    s, l = both_forms([a, b, c])
    if s is None:
        return
    for name in s:
        built = accepted(name, [a, b, c])
        if built is None:
            continue
        for n in (a, b, c):
            if n not in built:
                fail("%r: name %r builds %r which lacks %r" % ([a, b, c], name, built, n))


def check_sampled(notes_):
    checked[0] += 1
    s, l = both_forms(notes_)
    if s is None:
        return
    for name in s:
        accepted(name, notes_)


def main():
    rnd = random.Random(7)

    # trivial answers
    for form in (False, True):
        checked[0] += 1
        if chords.determine([], form) != []:
            fail("determine([]) != []")
        for n in ROOTS21 + ["C##", "Bbb"]:
            if chords.determine([n], form) != [n]:
                fail("determine([%r]) != [%r]" % (n, n))
        for (a, b), name in INTERVAL_NAMES.items():
            checked[0] += 1
            got = chords.determine([a, b], form)
            if got != [name]:
                fail("determine(%r, %r) = %r, expected [%r]" % ([a, b], form, got, name))
        for _ in range(30):
            a, b = rnd.choice(ROOTS21), rnd.choice(ROOTS21)
            if chords.determine([a, b], form) != [intervals.determine(a, b)]:
                fail("determine(%r) is not the interval name" % ([a, b],))

    # every shorthand on a spread of roots, every rotation, both forms
    shorthands = sorted(chords.chord_shorthand)
    for sh in shorthands:
        roots = rnd.sample(ROOTS21, 4) + rnd.sample(ROOTS_DOUBLE, 1)
        if os.environ.get("C07_FULL"):
            roots = ROOTS21 + ROOTS_DOUBLE
        for root in roots:
            check_built_chord(root, sh)

    # tuples are legal too, and repeated calls must agree
    for sh in ("m7", "M", "13", "sus4b9"):
        chord = chords.from_shorthand("Eb" + sh)
        first = chords.determine(list(chord), True)
        for _ in range(3):
            if chords.determine(list(chord), True) != first:
                fail("repeated determine(%r) changed its answer" % (chord,))
        got = chords.determine(list(chord), True)
        got.append("junk")
        if chords.determine(list(chord), True) != first:
            fail("mutating a returned answer leaked into the next call")

    # three note inputs
    if os.environ.get("C07_FULL"):
        triples = [(a, b, c) for a in ROOTS21 for b in ROOTS21 for c in ROOTS21]
    else:
        triples = [tuple(rnd.choice(ROOTS21) for _ in range(3)) for _ in range(500)]
        triples += [("C", "E", "G"), ("A", "C", "E"), ("C", "F", "G"), ("C", "C", "C"),
                    ("E#", "Fb", "B#"), ("C", "E", "Bb"), ("C", "G", "Bb"), ("C", "G", "B")]
    for t in triples:
        check_three(*t)

    # sampled 4-7 note inputs: no raise, same length, every name constructible
    pool = ROOTS21 + ROOTS_DOUBLE
    for n in (4, 5, 6, 7):
        for _ in range(40 if not os.environ.get("C07_FULL") else 400):
            check_sampled([rnd.choice(pool) for _ in range(n)])
    # stacked thirds in a key are much richer in names than random notes
    for key in ("C", "F#", "Bb", "Eb", "A"):
        for start in range(7):
            for n in (4, 5, 6, 7):
                ks = mingus.core.keys.get_notes(key)
                check_sampled([ks[(start + 2 * j) % 7] for j in range(n)])

    finish()


if __name__ == "__main__":
    import mingus.core.keys
    main()
