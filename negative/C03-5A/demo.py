import mingus, os; assert os.path.realpath(mingus.__file__).startswith(os.path.realpath(os.path.dirname(__file__)))
"""Direct check of property C03 (interval naming <-> interval shorthand) through
the public API of mingus.core.intervals.  Exit 0 when it holds, 1 otherwise."""
import sys

from mingus.core import intervals

LETTERS = "CDEFGAB"
NATURAL = {"C": 0, "D": 2, "E": 4, "F": 5, "G": 7, "A": 9, "B": 11}
MAJOR = [0, 2, 4, 5, 7, 9, 11]  # major / perfect size of degree 1..7
WORDS = ["unison", "second", "third", "fourth", "fifth", "sixth", "seventh"]
ACCS = ["", "#", "##", "b", "bb"]
NAMES = [l + a for l in LETTERS for a in ACCS]
SHORTHANDS = [a + str(d) for a in ACCS for d in range(1, 8)]

failures = []
checked = [0]


def fail(msg):
    failures.append(msg)
    if len(failures) > 15:
        finish()


def finish():
    if failures:
        print("PROPERTY C03 VIOLATED (%d failures shown):" % len(failures))
        for f in failures:
            print("  " + f)
        sys.exit(1)
    print("C03 holds on %d checks" % checked[0])
    sys.exit(0)


def acc_value(name):
    return name[1:].count("#") - name[1:].count("b")


def spell(letter, acc):
    return letter + ("#" * acc if acc >= 0 else "b" * -acc)


def expected_quality(steps, offset):
    if offset == 0:
        return "perfect" if steps in (3, 4) else "major"
    if offset == -1:
        return "minor"
    return "diminished" if offset < -1 else "augmented"


# ---- 1. determine() and the way back through from_shorthand() -------------
pairs = 0
for n1 in NAMES:
    for n2 in NAMES:
        i1, i2 = LETTERS.index(n1[0]), LETTERS.index(n2[0])
        steps = (i2 - i1) % 7
        natural_dist = NATURAL[n2[0]] - NATURAL[n1[0]] + (12 if i2 < i1 else 0)
        dist = natural_dist + acc_value(n2) - acc_value(n1)
        if not 0 <= dist <= 11:
            continue  # outside the quantifier
        pairs += 1
        offset = dist - MAJOR[steps]
        want_long = "%s %s" % (expected_quality(steps, offset), WORDS[steps])
        want_short = ("#" * offset if offset >= 0 else "b" * -offset) + str(steps + 1)

        # positional, keyword and mixed call forms
        got_long = intervals.determine(n1, n2)
        got_long2 = intervals.determine(note1=n1, note2=n2, shorthand=False)
        got_short = intervals.determine(n1, n2, True)
        got_short2 = intervals.determine(n1, n2, shorthand=True)
        checked[0] += 4
        if got_long != want_long or got_long2 != want_long:
            fail("determine(%r, %r) = %r / %r, expected %r" % (n1, n2, got_long, got_long2, want_long))
        if got_short != want_short or got_short2 != want_short:
            fail("determine(%r, %r, True) = %r / %r, expected %r" % (n1, n2, got_short, got_short2, want_short))
        if not isinstance(got_long, str) or not isinstance(got_short, str):
            fail("determine(%r, %r) did not return str" % (n1, n2))
        if isinstance(got_short, str) and got_short:
            back = intervals.from_shorthand(n1, got_short)
            checked[0] += 1
            if back != n2:
                fail("from_shorthand(%r, %r) = %r, expected %r" % (n1, got_short, back, n2))

if pairs < 400:
    fail("too few pairs in the quantifier: %d" % pairs)

# ---- 2. from_shorthand() up / down / round trip ----------------------------
for rounds in range(2):  # second round repeats every call (stale state / caches)
    for n in NAMES:
        i = LETTERS.index(n[0])
        a = acc_value(n)
        for sh in SHORTHANDS:
            deg = int(sh[-1])
            size = MAJOR[deg - 1] + sh.count("#") - sh.count("b")

            j = i + deg - 1
            up_letter = LETTERS[j % 7]
            up_nat = NATURAL[up_letter] + (12 if j >= 7 else 0)
            want_up = spell(up_letter, NATURAL[n[0]] + a + size - up_nat)

            j = i - (deg - 1)
            down_letter = LETTERS[j % 7]
            down_nat = NATURAL[down_letter] - (12 if j < 0 else 0)
            want_down = spell(down_letter, NATURAL[n[0]] + a - size - down_nat)

            got_up = intervals.from_shorthand(n, sh)
            got_up2 = intervals.from_shorthand(n, sh, True)
            got_up3 = intervals.from_shorthand(note=n, interval=sh, up=True)
            got_down = intervals.from_shorthand(n, sh, False)
            got_down2 = intervals.from_shorthand(n, interval=sh, up=False)
            checked[0] += 5
            if not (got_up == got_up2 == got_up3 == want_up):
                fail("from_shorthand(%r, %r) up = %r / %r / %r, expected %r" % (n, sh, got_up, got_up2, got_up3, want_up))
            if not (got_down == got_down2 == want_down):
                fail("from_shorthand(%r, %r, False) = %r / %r, expected %r" % (n, sh, got_down, got_down2, want_down))
            if not isinstance(got_up, str) or not isinstance(got_down, str):
                fail("from_shorthand(%r, %r) did not return str" % (n, sh))
                continue
            rt = intervals.from_shorthand(got_up, sh, False)
            rt2 = intervals.from_shorthand(got_down, sh, True)
            checked[0] += 2
            if rt != n:
                fail("up then down: %r --%s--> %r --back--> %r" % (n, sh, got_up, rt))
            if rt2 != n:
                fail("down then up: %r --%s--> %r --back--> %r" % (n, sh, got_down, rt2))

# ---- 3. invert() -----------------------------------------------------------
inv_cases = [
    [],
    ["C"],
    ["C", "E"],
    ["E", "C"],
    ["C", "E", "G", "B"],
    ["C", "C", "D"],
    list(NAMES),
    ["x{", "%s", "a\nb", u"é", "C#"],
    [NAMES[k % len(NAMES)] for k in range(5000)],
]
shared = ["A", "Bb"]
inv_cases.append(shared)
inv_cases.append(shared)  # same object used twice
for case in inv_cases:
    snapshot = list(case)
    got = intervals.invert(case)
    got_kw = intervals.invert(interval=case)
    checked[0] += 2
    if case != snapshot:
        fail("invert changed its argument: %r" % (snapshot[:10],))
    if got != snapshot[::-1] or got_kw != snapshot[::-1]:
        fail("invert(%r...) wrong result %r..." % (snapshot[:6], got[:6]))
    if not isinstance(got, list):
        fail("invert did not return a list for %r" % (snapshot[:6],))
    if isinstance(got, list) and intervals.invert(got) != snapshot:
        fail("invert twice is not the identity for %r" % (snapshot[:6],))

finish()
