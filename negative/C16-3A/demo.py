import mingus, os; assert os.path.realpath(mingus.__file__).startswith(os.path.realpath(os.path.dirname(__file__)))
"""Direct check of property C16 through the public API.

An independent, strict Standard MIDI File reader (running status, meta and
sysex events supported, as the format allows) decodes what the write_*
functions put on disk, and the decoded events are compared with a model of
the music computed from the containers alone.
"""
import random
import sys
import tempfile

from mingus.containers import Bar, Composition, Note, NoteContainer, Track
from mingus.containers.instrument import MidiInstrument, Piano
from mingus.core.keys import keys as KEY_TABLE
from mingus.midi import midi_file_out
from mingus.midi.midi_track import MidiTrack

CASES = [0]
TMP = tempfile.mkdtemp(prefix="c16demo")
PATH = os.path.join(TMP, "out.mid")


class Bad(Exception):
    pass


def need(cond, msg):
    if not cond:
        raise Bad(msg)


# ----------------------------------------------------------------- SMF reader
def read_vlq(data, pos, end):
    value = 0
    for n in range(4):
        need(pos < end, "VLQ runs past the end of the chunk")
        b = data[pos]
        pos += 1
        value = (value << 7) | (b & 0x7F)
        if b < 0x80:
            return value, pos
    raise Bad("VLQ longer than four bytes")


def parse_smf(data):
    need(data[:4] == b"MThd", "no MThd")
    need(int.from_bytes(data[4:8], "big") == 6, "header length is not 6")
    fmt = int.from_bytes(data[8:10], "big")
    ntrks = int.from_bytes(data[10:12], "big")
    division = int.from_bytes(data[12:14], "big")
    need(fmt == 1, "format %d" % fmt)
    need(division == 72, "division %d" % division)
    pos = 14
    tracks = []
    while pos < len(data):
        need(data[pos:pos + 4] == b"MTrk", "chunk at %d is not MTrk" % pos)
        need(pos + 8 <= len(data), "truncated chunk header")
        length = int.from_bytes(data[pos + 4:pos + 8], "big")
        start = pos + 8
        end = start + length
        need(end <= len(data), "chunk length runs past end of file")
        tracks.append(parse_track(data, start, end))
        pos = end
    need(len(tracks) == ntrks, "header says %d tracks, %d chunks follow" % (ntrks, len(tracks)))
    return tracks


def parse_track(data, pos, end):
    events = []
    tick = 0
    running = None
    ended = False
    while pos < end:
        need(not ended, "events after end-of-track")
        delta, pos = read_vlq(data, pos, end)
        tick += delta
        need(pos < end, "delta time without event")
        b = data[pos]
        if b == 0xFF:
            need(pos + 2 <= end, "truncated meta event")
            mtype = data[pos + 1]
            need(mtype < 0x80, "meta type %#x" % mtype)
            mlen, p = read_vlq(data, pos + 2, end)
            need(p + mlen <= end, "meta event data runs past the chunk")
            payload = bytes(data[p:p + mlen])
            pos = p + mlen
            running = None
            if mtype == 0x2F:
                need(mlen == 0, "end-of-track with data")
                ended = True
            elif mtype == 0x51:
                need(mlen == 3, "tempo length %d" % mlen)
            elif mtype == 0x58:
                need(mlen == 4, "time signature length %d" % mlen)
            elif mtype == 0x59:
                need(mlen == 2, "key signature length %d" % mlen)
            events.append((tick, "meta", mtype, payload))
        elif b in (0xF0, 0xF7):
            mlen, p = read_vlq(data, pos + 1, end)
            need(p + mlen <= end, "sysex runs past the chunk")
            pos = p + mlen
            running = None
            events.append((tick, "sysex", b, bytes(data[p:p + mlen])))
        elif b >= 0xF0:
            raise Bad("status byte %#x not allowed in a file" % b)
        else:
            if b >= 0x80:
                status = b
                pos += 1
            else:
                need(running is not None, "data byte %#x without running status" % b)
                status = running
            running = status
            nargs = 1 if status >> 4 in (0xC, 0xD) else 2
            need(pos + nargs <= end, "truncated channel event")
            args = tuple(data[pos:pos + nargs])
            need(all(a < 0x80 for a in args), "data byte with high bit in channel event")
            pos += nargs
            events.append((tick, "chan", status >> 4, status & 0x0F) + args)
    need(ended, "chunk does not end in end-of-track")
    need(pos == end, "chunk length does not match content")
    return events


# ------------------------------------------------------------- expected model
def key_sig(key):
    name = key if isinstance(key, str) else key.key
    for i, (maj, mnr) in enumerate(KEY_TABLE):
        if name == maj:
            return i - 7, 0
        if name == mnr:
            return i - 7, 1
    raise AssertionError(name)


class Model(object):
    """What one MIDI track must contain."""

    def __init__(self):
        self.now = 0
        self.ons = []
        self.offs = []
        self.meters = []
        self.keys = []

    def single(self, notes):
        for n in notes:
            self.ons.append((self.now, int(n) + 12, n.channel, n.velocity))
            self.offs.append((self.now + 72, int(n) + 12, n.channel, n.velocity))
        self.now += 72

    def bar(self, bar):
        d = bar.meter[1]
        self.meters.append((self.now, bar.meter[0], d.bit_length() - 1))
        self.keys.append((self.now,) + key_sig(bar.key))
        for beat, value, nc in bar:
            ticks = int(round(288 / value))
            if nc is not None and len(nc):
                for n in nc:
                    self.ons.append((self.now, int(n) + 12, n.channel, n.velocity))
                    self.offs.append((self.now + ticks, int(n) + 12, n.channel, n.velocity))
            self.now += ticks

    def track(self, track):
        for bar in track:
            self.bar(bar)


def first_note(track):
    for bar in track:
        for beat, value, nc in bar:
            if nc is not None and len(nc):
                return nc[0]
    return None


def check_track(events, model, bpm, name=None, instrument=None, first=None):
    ons = [(e[0], e[4], e[3], e[5]) for e in events if e[1] == "chan" and e[2] == 0x9]
    offs = [(e[0], e[4], e[3], e[5]) for e in events if e[1] == "chan" and e[2] == 0x8]
    need(sorted(ons) == sorted(model.ons), "note-ons %r, expected %r" % (sorted(ons), sorted(model.ons)))
    need(sorted(offs) == sorted(model.offs), "note-offs %r, expected %r" % (sorted(offs), sorted(model.offs)))
    # no note hangs or overlaps itself (file order)
    sounding = set()
    for e in events:
        if e[1] == "chan" and e[2] == 0x9:
            k = (e[3], e[4])
            need(k not in sounding, "note %r struck while sounding" % (k,))
            sounding.add(k)
        elif e[1] == "chan" and e[2] == 0x8:
            k = (e[3], e[4])
            need(k in sounding, "note %r released while silent" % (k,))
            sounding.discard(k)
    need(not sounding, "hanging notes %r" % sounding)
    tempos = [(e[0], int.from_bytes(e[3], "big")) for e in events if e[1] == "meta" and e[2] == 0x51]
    need(tempos and tempos[0][0] == 0, "no tempo at tick 0")
    need(all(t[1] == 60000000 // bpm for t in tempos), "tempo %r for %r bpm" % (tempos, bpm))
    meters = [(e[0], e[3][0], e[3][1]) for e in events if e[1] == "meta" and e[2] == 0x58]
    need(meters == model.meters, "time signatures %r, expected %r" % (meters, model.meters))
    ks = [(e[0], e[3][0] - 256 if e[3][0] > 127 else e[3][0], e[3][1]) for e in events if e[1] == "meta" and e[2] == 0x59]
    need(ks == model.keys, "key signatures %r, expected %r" % (ks, model.keys))
    if name is not None:
        names = [e[3] for e in events if e[1] == "meta" and e[2] == 0x03]
        need(names and all(n == name.encode("ascii") for n in names), "track names %r, expected %r" % (names, name))
    if instrument is not None and first is not None:
        ch = first.channel
        idx_on = min(i for i, e in enumerate(events) if e[1] == "chan" and e[2] == 0x9)
        banks = [i for i, e in enumerate(events) if e[1] == "chan" and e[2:] == (0xB, ch, 0, 1)]
        progs = [i for i, e in enumerate(events) if e[1] == "chan" and e[2:] == (0xC, ch, instrument)]
        need(banks and progs, "no bank select / program change %d on channel %d" % (instrument, ch))
        need(banks[0] < progs[0] < idx_on, "bank select, program change, first note out of order")
        need(events[progs[0]][0] <= events[idx_on][0], "program change later than first note")


def read_back():
    with open(PATH, "rb") as f:
        data = f.read()
    os.remove(PATH)
    return parse_smf(data)


def run(label, fn):
    CASES[0] += 1
    try:
        fn()
    except Bad as e:
        print("C16 FAILS in case %s: %s" % (label, e))
        sys.exit(1)


# -------------------------------------------------------------------- helpers
VALUES = [1, 2, 4, 8, 16, 32, 3, 6, 12, 24, 1.5, 8 / 3.0, 16 / 3.0, 5, 7, 9, 10, 20, 64, 128, 4.0, 48, 96]
ALL_KEYS = [k for pair in KEY_TABLE for k in pair]
METERS = [(4, 4), (3, 4), (6, 8), (2, 2), (5, 4), (7, 8), (12, 8), (1, 1), (9, 16), (3, 2), (11, 32), (2, 64), (8, 4)]
NAMES = ["C", "C#", "Db", "D", "Eb", "E", "F", "F#", "G", "Ab", "A", "Bb", "B", "Cb", "E#", "Fbb", "G##"]


def rnd_note(rng):
    while True:
        n = Note(rng.choice(NAMES), rng.randint(0, 9), velocity=rng.randint(0, 127), channel=rng.randint(0, 15))
        if 0 <= int(n) + 12 <= 127 and int(n) >= 0:
            return n


def rnd_container(rng, size=None):
    nc = NoteContainer()
    size = size or rng.choice([1, 1, 2, 3, 4, 6])
    while len(nc) < size:
        nc.add_note(rnd_note(rng))
    return nc


def rnd_bar(rng, key=None, meter=None, pattern=None):
    meter = meter or rng.choice(METERS)
    b = Bar(key or rng.choice(ALL_KEYS), meter)
    n_entries = rng.randint(0, 7)
    for i in range(n_entries):
        value = rng.choice(VALUES)
        kind = pattern[i % len(pattern)] if pattern else rng.choice("nnnr")
        if kind == "r":
            ok = b.place_rest(value)
        else:
            ok = b.place_notes(rnd_container(rng), value)
        if not ok:
            break
    return b


def rnd_track(rng, nbars=None, instrument="rnd"):
    t = Track()
    if instrument == "rnd":
        instrument = rng.choice([None, "midi", "midi", "piano"])
    nr = None
    if instrument == "midi":
        mi = MidiInstrument()
        nr = rng.randint(0, 127)
        mi.instrument_nr = nr
        t.instrument = mi
    elif instrument == "piano":
        t.instrument = Piano()
    t.name = rng.choice(["Untitled", "lead {0} %s", "x", "100% \n two lines", "bass" * 60, "a~b\\c", ""])
    for i in range(rng.randint(0, 4) if nbars is None else nbars):
        t.add_bar(rnd_bar(rng))
    return t, nr


def check_written_track(events, track, nr, bpm, repeat):
    m = Model()
    for i in range(repeat + 1):
        m.track(track)
    check_track(events, m, bpm, name=track.name, instrument=nr, first=first_note(track))


# ---------------------------------------------------------------------- cases
def main():
    rng = random.Random(1606)

    # single notes: every channel, a spread of velocities, pitch limits, repeats
    def note_case(n, bpm, repeat, kw):
        def go():
            if kw:
                need(midi_file_out.write_Note(file=PATH, note=n, bpm=bpm, repeat=repeat) is True, "write_Note result")
            else:
                need(midi_file_out.write_Note(PATH, n, bpm, repeat) is True, "write_Note result")
            tracks = read_back()
            need(len(tracks) == 1, "track count")
            m = Model()
            for i in range(repeat + 1):
                m.single([n])
            check_track(tracks[0], m, bpm)
        return go

    for ch in range(16):
        n = Note("C", 4, velocity=(ch * 9) % 128, channel=ch)
        run("note ch%d" % ch, note_case(n, 120, ch % 3, ch % 2))
    for vel in list(range(0, 128, 5)) + [127]:
        run("note vel%d" % vel, note_case(Note("A", 3, velocity=vel, channel=vel % 16), 60 + vel, 0, False))
    for n in [Note("C", 0), Note("G", 9), Note("Cb", 1), Note("B#", 8), Note("F##", 9), Note("Abb", 9)]:
        run("note %r" % n, note_case(n, 97, 2, True))
    run("note long repeat", note_case(Note("E", 5, velocity=1, channel=15), 333, 300, False))

    # containers on their own
    def nc_case(nc, bpm, repeat):
        def go():
            need(midi_file_out.write_NoteContainer(PATH, nc, bpm=bpm, repeat=repeat) is True, "result")
            tracks = read_back()
            need(len(tracks) == 1, "track count")
            m = Model()
            for i in range(repeat + 1):
                m.single(list(nc))
            check_track(tracks[0], m, bpm)
        return go

    for size in (1, 2, 3, 5, 9):
        for rep in (0, 1, 4):
            run("container %d x%d" % (size, rep), nc_case(rnd_container(rng, size), rng.choice([40, 120, 121, 999]), rep))
    run("container names", nc_case(NoteContainer(["C", "E", "G", "B"]), 120, 0))

    # bars: all 30 keys, meters, values, rests in every position
    def bar_case(bar, bpm, repeat):
        def go():
            need(midi_file_out.write_Bar(PATH, bar, bpm, repeat) is True, "result")
            tracks = read_back()
            need(len(tracks) == 1, "track count")
            m = Model()
            for i in range(repeat + 1):
                m.bar(bar)
            check_track(tracks[0], m, bpm)
        return go

    for i, key in enumerate(ALL_KEYS):
        run("bar key %s" % key, bar_case(rnd_bar(rng, key=key, meter=METERS[i % len(METERS)]), 100 + i, i % 3))
    for meter in METERS:
        run("bar meter %r" % (meter,), bar_case(rnd_bar(rng, meter=meter), 120, 1))
    for pattern in ["r", "rn", "nr", "rrn", "nrr", "nrn", "rnr", "n", "rrrr"]:
        for rep in (0, 2):
            run("bar rests %s x%d" % (pattern, rep), bar_case(rnd_bar(rng, meter=(8, 4), pattern=pattern), 77, rep))
    for value in VALUES:
        b = Bar("Eb", (16, 4))
        b.place_rest(value)
        b.place_notes(rnd_container(rng), value)
        b.place_notes(rnd_container(rng), value)
        b.place_rest(value)
        run("bar value %r" % value, bar_case(b, 120, 1))
    run("bar empty", bar_case(Bar("f#", (3, 4)), 120, 2))
    b = Bar("C", (4, 4))
    b.place_rest(1)
    run("bar whole rest", bar_case(b, 120, 3))
    b = Bar("C", (4, 4))
    nc = NoteContainer([Note("C", 4), Note("G", 4)])
    for i in range(4):
        b.place_notes(nc, 4)  # the same container in every entry
    run("bar shared container", bar_case(b, 120, 5))
    b = Bar("C", (250, 4))
    for i in range(250):
        b.place_notes(rnd_container(rng, 2), 4) if i % 7 else b.place_rest(4)
    run("bar very long", bar_case(b, 30, 20))  # deltas above 16383 after long rests do not occur, length does

    # tracks
    def track_case(track, nr, bpm, repeat, kw=False):
        def go():
            if kw:
                res = midi_file_out.write_Track(file=PATH, track=track, bpm=bpm, repeat=repeat, verbose=False)
            else:
                res = midi_file_out.write_Track(PATH, track, bpm, repeat)
            need(res is True, "result")
            tracks = read_back()
            need(len(tracks) == 1, "track count")
            check_written_track(tracks[0], track, nr, bpm, repeat)
        return go

    for i in range(90):
        t, nr = rnd_track(rng)
        run("track %d" % i, track_case(t, nr, rng.choice([4, 59, 120, 240, 7000]), rng.choice([0, 0, 1, 3]), i % 2))
    for nr in (0, 1, 64, 127):
        for ch in (0, 9, 15):
            t = Track()
            mi = MidiInstrument()
            mi.instrument_nr = nr
            t.instrument = mi
            b = Bar("bb", (4, 4))
            b.place_rest(2)
            b.place_notes(NoteContainer([Note("D", 3, velocity=90, channel=ch), Note("A", 3, velocity=3, channel=(ch + 1) % 16)]), 4)
            b.place_rest(4)
            t.add_bar(b)
            t.add_bar(Bar("bb", (4, 4)))
            run("instrument %d ch %d" % (nr, ch), track_case(t, nr, 120, 1))
    t = Track()  # long rests: deltas needing two and three VLQ bytes
    for i in range(70):
        b = Bar("C", (4, 4))
        b.place_rest(1)
        t.add_bar(b)
    b = Bar("G", (4, 4))
    b.place_notes("C", 1)
    t.add_bar(b)
    run("track long rests", track_case(t, None, 120, 1))
    t = Track()
    shared = rnd_bar(rng)
    for i in range(5):
        t.add_bar(shared)  # one bar object used several times
    run("track shared bar", track_case(t, None, 120, 2))

    # compositions, 1-4 tracks (and none)
    def comp_case(comp, nrs, bpm, repeat):
        def go():
            need(midi_file_out.write_Composition(PATH, comp, bpm=bpm, repeat=repeat) is True, "result")
            tracks = read_back()
            need(len(tracks) == len(comp.tracks), "%d chunks for %d tracks" % (len(tracks), len(comp.tracks)))
            for ev, tr, nr in zip(tracks, comp.tracks, nrs):
                check_written_track(ev, tr, nr, bpm, repeat)
        return go

    for i in range(80):
        c = Composition()
        nrs = []
        for j in range(1 + i % 4):
            t, nr = rnd_track(rng)
            c.add_track(t)
            nrs.append(nr)
        run("composition %d" % i, comp_case(c, nrs, rng.choice([20, 120, 180, 65536]), rng.choice([0, 0, 1, 2])))
    c = Composition()
    t, nr = rnd_track(rng, nbars=3)
    for j in range(4):
        c.add_track(t)  # the same track four times
    run("composition shared track", comp_case(c, [nr] * 4, 120, 1))
    run("composition empty", comp_case(Composition(), [], 120, 0))

    # MidiFile / MidiTrack used directly
    def direct():
        mt1, mt2 = MidiTrack(90), MidiTrack(start_bpm=90)
        t1, n1 = rnd_track(rng, nbars=2, instrument="midi")
        t2, n2 = rnd_track(rng, nbars=3, instrument=None)
        mt1.play_Track(t1)
        mt2.play_Track(t2)
        mf = midi_file_out.MidiFile([mt1, mt2])
        need(mf.write_file(PATH) is True, "write_file result")
        tracks = read_back()
        need(len(tracks) == 2, "track count")
        check_written_track(tracks[0], t1, n1, 90, 0)
        check_written_track(tracks[1], t2, n2, 90, 0)
        whole = parse_smf(mf.get_midi_data())
        need(whole == tracks, "get_midi_data differs from the file written")
        one = parse_smf(b"MThd\x00\x00\x00\x06\x00\x01\x00\x01\x00\x48" + mt1.get_midi_data())
        need(one[0] == tracks[0], "MidiTrack.get_midi_data")
    run("direct use", direct)

    # the variable-length encoder
    def std(v):
        out = [v & 0x7F]
        v >>= 7
        while v:
            out.append(0x80 | (v & 0x7F))
            v >>= 7
        return bytes(reversed(out))

    def vlq():
        mt = MidiTrack()
        probe = set(range(0, 70000))
        for k in range(1, 29):
            for d in range(-40, 41):
                probe.add((1 << k) + d)
        for k in (1, 2, 3):
            for d in range(-300, 301):
                probe.add((1 << (7 * k)) + d)
        probe.update(range((1 << 28) - 3000, 1 << 28))
        probe.update(rng.randrange(1 << 28) for i in range(20000))
        for v in sorted(p for p in probe if 0 <= p < (1 << 28)):
            got = mt.int_to_varbyte(v)
            need(isinstance(got, bytes) and got == std(v), "int_to_varbyte(%d) = %r, standard %r" % (v, got, std(v)))
        need(MidiTrack().int_to_varbyte(value=300) == b"\x82\x2c", "keyword form")
        pool = [rng.randrange(1 << rng.randint(1, 28)) for i in range(700)]
        for i in range(40000):  # the same values again and again, from several tracks
            v = rng.choice(pool)
            got = (mt if i % 3 else MidiTrack()).int_to_varbyte(v)
            need(got == std(v), "int_to_varbyte(%d) = %r on a repeated call, standard %r" % (v, got, std(v)))
    run("vlq", vlq)

    print("C16 holds on %d cases" % CASES[0])
    sys.exit(0)


main()
