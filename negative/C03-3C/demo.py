import mingus, os; assert os.path.realpath(mingus.__file__).startswith(os.path.realpath(os.path.dirname(__file__)))
import sys

from mingus.core import intervals

LETTERS = "CDEFGAB"
NATURAL = {"C": 0, "D": 2, "E": 4, "F": 5, "G": 7, "A": 9, "B": 11}
MAJOR = [0, 2, 4, 5, 7, 9, 11]
NUMBER = ["unison", "second", "third", "fourth", "fifth", "sixth", "seventh"]
ACCS = ["", "#", "##", "b", "bb"]
NAMES = [l + a for l in LETTERS for a in ACCS]
SHORTHANDS = [a + str(d) for a in ACCS for d in range(1, 8)]

failures = []
checked = 0


def fail(msg):
    failures.append(msg)


def acc(name):
    return name[1:].count("#") - name[1:].count("b")


def spell(letter, n):
    return letter + ("#" * n if n >= 0 else "b" * -n)


def check_naming():
    global checked
    for i, n1 in enumerate(NAMES):
        for j, n2 in enumerate(NAMES):
            degree = (LETTERS.index(n2[0]) - LETTERS.index(n1[0])) % 7
            span = (NATURAL[n2[0]] - NATURAL[n1[0]]) % 12
            dist = span + acc(n2) - acc(n1)
            if not 0 <= dist <= 11:
                continue
            off = dist - MAJOR[degree]
            if off == 0:
                quality = "perfect" if degree in (3, 4) else "major"
            elif off == -1:
                quality = "minor"
            elif off < -1:
                quality = "diminished"
            else:
                quality = "augmented"
            want_long = quality + " " + NUMBER[degree]
            want_short = ("#" * off if off > 0 else "b" * -off) + str(degree + 1)
            # vary the argument form: positional / keyword
            if (i + j) % 3 == 0:
                got_long = intervals.determine(n1, n2)
                got_short = intervals.determine(n1, n2, True)
            elif (i + j) % 3 == 1:
                got_long = intervals.determine(n1, n2, shorthand=False)
                got_short = intervals.determine(n1, n2, shorthand=True)
            else:
                got_long = intervals.determine(note1=n1, note2=n2)
                got_short = intervals.determine(shorthand=True, note2=n2, note1=n1)
            checked += 2
            if got_long != want_long:
                fail("determine(%r, %r) = %r, expected %r" % (n1, n2, got_long, want_long))
            if got_short != want_short:
                fail(
                    "determine(%r, %r, True) = %r, expected %r"
                    % (n1, n2, got_short, want_short)
                )
                continue
            back = intervals.from_shorthand(n1, got_short)
            checked += 1
            if back != n2:
                fail(
                    "from_shorthand(%r, %r) = %r, expected %r" % (n1, got_short, back, n2)
                )


def check_shorthand():
    global checked
    for i, n in enumerate(NAMES):
        for j, sh in enumerate(SHORTHANDS):
            degree = int(sh[-1]) - 1
            size = MAJOR[degree] + sh.count("#") - sh.count("b")
            # upward
            up_letter = LETTERS[(LETTERS.index(n[0]) + degree) % 7]
            span = (NATURAL[up_letter] - NATURAL[n[0]]) % 12
            want_up = spell(up_letter, acc(n) + size - span)
            # downward
            dn_letter = LETTERS[(LETTERS.index(n[0]) - degree) % 7]
            span_dn = (NATURAL[n[0]] - NATURAL[dn_letter]) % 12
            want_dn = spell(dn_letter, acc(n) - size + span_dn)
            if (i + j) % 2 == 0:
                got_up = intervals.from_shorthand(n, sh)
                got_dn = intervals.from_shorthand(n, sh, False)
            else:
                got_up = intervals.from_shorthand(note=n, interval=sh, up=True)
                got_dn = intervals.from_shorthand(n, sh, up=False)
            checked += 2
            if got_up != want_up:
                fail("from_shorthand(%r, %r) = %r, expected %r" % (n, sh, got_up, want_up))
                continue
            if got_dn != want_dn:
                fail(
                    "from_shorthand(%r, %r, False) = %r, expected %r"
                    % (n, sh, got_dn, want_dn)
                )
            back = intervals.from_shorthand(got_up, sh, False)
            checked += 1
            if back != n:
                fail(
                    "%r up %r then down gives %r, expected the starting name"
                    % (n, sh, back)
                )


def check_invert():
    global checked
    samples = [
        [],
        ["C"],
        ["C", "E"],
        ["E", "C"],
        ["C", "E", "G", "B"],
        ["C", "C", "D", "C"],
        list(NAMES),
        [u"é{", "%s", "a\nb"],
        [1, (2, 3), None, "x"],
        NAMES * 50,
    ]
    shared = ["C", "E"]
    samples.append([shared, shared, ["G"]])
    for s in samples:
        before = list(s)
        got = intervals.invert(s)
        checked += 1
        if type(got) is not list or got != before[::-1]:
            fail("invert(%r...) did not return the reversed list" % (before[:4],))
        if s != before:
            fail("invert changed its argument %r..." % (before[:4],))
        if got is s:
            fail("invert returned its argument")
        # twice gives the original order back, argument still untouched
        again = intervals.invert(got)
        checked += 1
        if again != before or s != before:
            fail("invert twice did not restore %r..." % (before[:4],))
    kw = intervals.invert(interval=["A", "C"])
    checked += 1
    if kw != ["C", "A"]:
        fail("invert(interval=['A','C']) = %r" % (kw,))


def main():
    # run the whole thing twice so that any remembered results are exercised too
    for _ in range(2):
        check_naming()
        check_shorthand()
        check_invert()
    if failures:
        print("PROPERTY C03 VIOLATED (%d failures, %d checks)" % (len(failures), checked))
        for f in failures[:20]:
            print("  " + f)
        return 1
    print("C03 holds on %d checks" % checked)
    return 0


if __name__ == "__main__":
    sys.exit(main())
