import mingus, os; assert os.path.realpath(mingus.__file__).startswith(os.path.realpath(os.path.dirname(__file__)))
"""Direct check of property C14 (tracks and compositions accumulate music
faithfully) through the public API.  Exit 0 when it holds, 1 otherwise."""
import random
import sys

from mingus.containers import Bar, Composition, Note, NoteContainer, Track
from mingus.containers.instrument import Guitar, Instrument, MidiInstrument, Piano
from mingus.containers.mt_exceptions import InstrumentRangeError
import mingus.core.value as value

EPS = 1e-6
CASES = 0


class Failure(Exception):
    pass


def check(cond, msg):
    if not cond:
        raise Failure(msg)


def names(nc):
    """Content of a bar entry: None for a rest, else [(name, octave), ...]."""
    if nc is None:
        return None
    return [(n.name, n.octave) for n in nc]


def expected_content(item):
    if item is None:
        return None
    if hasattr(item, "notes"):
        return [(n.name, n.octave) for n in item.notes]
    return names(NoteContainer(item))


def snapshot(track):
    """(per-bar list of (value, content)), used to see that nothing changed."""
    return [[(e[1], names(e[2])) for e in bar] for bar in track.bars]


def flat(track):
    return list(track.get_notes())


def check_structure(track, accepted, where):
    entries = flat(track)
    check(len(entries) == len(accepted),
          "%s: %d entries for %d accepted items" % (where, len(entries), len(accepted)))
    for i, (entry, (val, content)) in enumerate(zip(entries, accepted)):
        check(len(entry) == 3, "%s: entry %d is not a triple" % (where, i))
        check(entry[1] == val, "%s: entry %d value %r != %r" % (where, i, entry[1], val))
        check(names(entry[2]) == content,
              "%s: entry %d content %r != %r" % (where, i, names(entry[2]), content))
    # iteration over the track itself gives the bars, in order
    bars = [b for b in track]
    check(len(bars) == len(track) == len(track.bars), "%s: len/iteration disagree" % where)
    for i, b in enumerate(bars):
        check(b is track.bars[i] and track[i] is b, "%s: track[%d] is not its bar" % (where, i))
    # every bar but the last is full
    for i, b in enumerate(track.bars[:-1]):
        check(b.is_full(), "%s: bar %d of %d not full" % (where, i, len(track.bars)))
        check(abs(sum(1.0 / e[1] for e in b) - b.length) < 1e-3 or b.length == 0.0,
              "%s: bar %d is said to be full but is not" % (where, i))
    check(track.test_integrity() is True or track.test_integrity() == True,
          "%s: test_integrity is false" % where)
    # beats inside a bar are the running sum of the lengths before them
    for b in track.bars:
        run = 0.0
        for e in b:
            check(abs(e[0] - run) < EPS, "%s: beat %r, expected %r" % (where, e[0], run))
            run += 1.0 / e[1]
    total = sum(1.0 / e[1] for e in entries)
    want = sum(1.0 / v for v, _ in accepted)
    check(abs(total - want) < EPS, "%s: total %r != accepted %r" % (where, total, want))


INSTRUMENTS = [None, Instrument, Piano, Guitar, lambda: MidiInstrument("Cello")]
METERS = [(4, 4), (3, 4), (6, 8), (2, 4), (2, 2), (5, 4), (7, 8), (3, 8)]
KEYS = ["C", "G", "F", "Bb", "D", "a", "e", "f#"]
VALUES = [1, 2, 4, 8, 16, 32, 3, 6, 12, value.dots(4), value.dots(8), value.dots(2)]
IN_ALL = ["E-4", "A-4", "C-5", "G-3", "E-3", "E-7", "F#-5", "Bb-4"]
OUT_SOME = ["C-0", "E-0", "D#-3", "F-7", "C-8", "B-8", "C-9", "A-12", "F-0"]


def in_range(instr, item):
    """Independent statement of the instruments' documented ranges."""
    if instr is None or item is None:
        return True
    lo, hi = {Instrument: (0, 96), Piano: (5, 107), Guitar: (40, 88),
              MidiInstrument: (0, 107)}[type(instr)]
    content = expected_content(item)
    if type(instr) is Guitar and len(content) > 6:
        return False
    pitches = [int(Note(n, o)) for n, o in content]
    return all(lo <= p <= hi for p in pitches)


def random_item(rng):
    r = rng.random()
    if r < 0.2:
        return None
    pool = IN_ALL if rng.random() < 0.75 else OUT_SOME
    if r < 0.45:
        return rng.choice(pool)
    if r < 0.6:
        n, o = rng.choice(pool).split("-")
        return Note(n, int(o))
    if r < 0.8:
        return NoteContainer(rng.sample(pool, rng.randint(1, 3)))
    if r < 0.9:
        return rng.sample(pool, rng.randint(1, 3))
    return NoteContainer(rng.sample(IN_ALL, 7))  # too many notes for a guitar


def run_sequence(seed):
    global CASES
    rng = random.Random(seed)
    make = rng.choice(INSTRUMENTS)
    instr = make() if make else None
    track = Track(instr)
    where0 = "seq %d (%s)" % (seed, type(instr).__name__)
    accepted = []
    if rng.random() < 0.7:
        meter, key = rng.choice(METERS), rng.choice(KEYS)
        ret = track.add_bar(Bar(key, meter)) if rng.random() < 0.5 else track + Bar(key, meter)
        check(ret is track, where0 + ": add_bar does not return the track")
    for step in range(rng.randint(5, 30)):
        where = "%s step %d" % (where0, step)
        item = random_item(rng)
        val = rng.choice(VALUES)
        use_plus = item is not None and not isinstance(item, list) and rng.random() < 0.25
        if use_plus or (val == 4 and rng.random() < 0.5):
            val = 4
        before = snapshot(track)
        nbars = len(track)
        last = track.bars[-1] if nbars else None
        last_full = last.is_full() if last is not None else None
        last_key, last_meter = (last.key, last.meter) if last is not None else (None, None)
        playable = in_range(instr, item)
        try:
            if use_plus:
                res = track + item
            elif val == 4 and rng.random() < 0.5:
                res = track.add_notes(item)
            else:
                res = track.add_notes(item, val)
        except InstrumentRangeError:
            check(not playable, where + ": range error for a playable item %r" % (item,))
            check(snapshot(track) == before, where + ": refused item changed the track")
            check_structure(track, accepted, where)
            CASES += 1
            continue
        check(playable, where + ": unplayable item %r accepted" % (item,))
        check(res is True or res is False, where + ": result %r is not a bool" % (res,))
        if res:
            accepted.append((val, expected_content(item)))
        else:
            # a rejected item leaves the music untouched
            check([b for b in snapshot(track) if b] == [b for b in before if b],
                  where + ": rejected item changed the track")
        if len(track) > nbars:
            check(len(track) == nbars + 1, where + ": more than one bar opened")
            if nbars:
                check(last_full, where + ": new bar opened although the last one was not full")
                check(track.bars[-1].key == last_key, where + ": key not inherited")
                check(tuple(track.bars[-1].meter) == tuple(last_meter), where + ": meter not inherited")
                check(abs(track.bars[-1].length - last.length) < EPS, where + ": bar length not inherited")
        else:
            check(not last_full or not res or True, where)
        if res and last_full:
            check(len(track) == nbars + 1, where + ": full bar got another item")
        check_structure(track, accepted, where)
        CASES += 1
    return track, accepted


def rests_and_ranges():
    """Rests with and without instruments; range boundaries."""
    global CASES
    for make in INSTRUMENTS:
        t = Track(make() if make else None)
        for v in (4, 4, 2, 1, 8):
            check(t.add_notes(None, v) is True, "rest refused with %r" % (t.instrument,))
        check([e[2] for e in flat(t)] == [None] * 5, "rests not stored as None")
        CASES += 1
    table = [
        (Instrument, "C-0", True), (Instrument, "C-8", True), (Instrument, "C#-8", False),
        (Piano, "F-0", True), (Piano, "E-0", False), (Piano, "B-8", True), (Piano, "C-9", False),
        (Guitar, "E-3", True), (Guitar, "Eb-3", False), (Guitar, "E-7", True), (Guitar, "F-7", False),
        (lambda: MidiInstrument(), "C-0", True), (lambda: MidiInstrument(), "B-8", True),
        (lambda: MidiInstrument(), "C-9", False),
    ]
    for make, note, ok in table:
        for form in (lambda s: s, lambda s: Note(*[s.split("-")[0], int(s.split("-")[1])]),
                     lambda s: NoteContainer(s), lambda s: NoteContainer(["A-4", s])):
            t = Track(make())
            t.add_notes("A-4", 2)
            before = snapshot(t)
            try:
                res = t.add_notes(form(note), 4)
                check(ok, "%s accepted by %r" % (note, t.instrument))
                check(res is True, "%s in range but not placed" % note)
                check(len(flat(t)) == 2, "in-range note not stored")
            except InstrumentRangeError:
                check(not ok, "%s refused by %r" % (note, t.instrument))
                check(snapshot(t) == before, "refused note changed the track")
            CASES += 1


CHORDS = ["C", "Am", "Dm7", "G7", "F", "Em", "C#", "Bbmaj7", None]


def random_chord_list(rng, depth=0):
    out = []
    for _ in range(rng.randint(1, 4)):
        if depth < 3 and rng.random() < 0.3:
            out.append(random_chord_list(rng, depth + 1))
        else:
            out.append(rng.choice(CHORDS))
    return out


def flatten(chords, dur):
    for c in chords:
        if isinstance(c, list):
            for x in flatten(c, dur * 2):
                yield x
        else:
            yield c, dur


def run_from_chords(seed):
    global CASES
    rng = random.Random(10000 + seed)
    meter, dur = rng.choice([((4, 4), 1), ((4, 4), 2), ((3, 4), 2), ((6, 8), 2), ((2, 4), 2),
                             ((2, 2), 1), ((5, 4), 1), ((3, 4), 4), ((7, 8), 2)])
    chords = random_chord_list(rng)
    make = rng.choice([None, Instrument, Piano, lambda: MidiInstrument()])
    t = Track(make() if make else None)
    key = rng.choice(KEYS)
    t.add_bar(Bar(key, meter))
    where = "from_chords %d %r %r" % (seed, meter, chords)
    ret = t.from_chords(chords, dur) if dur != 1 or rng.random() < 0.5 else t.from_chords(chords)
    check(ret is t, where + ": does not return the track")
    want = list(flatten(chords, dur))
    entries = flat(t)
    i = 0
    for chord, d in want:
        content = None if chord is None else names(NoteContainer().from_chord(chord))
        check(i < len(entries), where + ": item %r missing" % (chord,))
        got = 1.0 / entries[i][1]
        check(names(entries[i][2]) == content, where + ": content of %r wrong" % (chord,))
        i += 1
        if abs(got - 1.0 / d) > EPS:
            # split across a bar line: the rest follows with the same content
            check(got < 1.0 / d, where + ": item longer than requested")
            check(i < len(entries), where + ": second half of %r missing" % (chord,))
            check(names(entries[i][2]) == content, where + ": split content of %r wrong" % (chord,))
            check(abs(entries[i][0]) < EPS, where + ": second half does not start a bar")
            got += 1.0 / entries[i][1]
            i += 1
            check(abs(got - 1.0 / d) < EPS, where + ": split lengths %r != %r" % (got, 1.0 / d))
    check(i == len(entries), where + ": %d extra entries" % (len(entries) - i))
    total = sum(1.0 / e[1] for e in entries)
    check(abs(total - sum(1.0 / d for _, d in want)) < EPS, where + ": total length wrong")
    for b in t.bars[:-1]:
        check(b.is_full(), where + ": inner bar not full")
    for b in t.bars:
        check(b.key == t.bars[0].key and tuple(b.meter) == tuple(meter), where + ": key/meter lost")
    CASES += 1


def run_composition(seed):
    global CASES
    rng = random.Random(20000 + seed)
    where = "composition %d" % seed
    comp = Composition()
    check(len(comp) == 0, where + ": new composition not empty")
    tracks = []
    for k in range(rng.randint(1, 5)):
        t = Track(rng.choice([None, Piano(), Instrument()]))
        if rng.random() < 0.5:
            t.add_bar(Bar(rng.choice(KEYS), rng.choice([(4, 4), (3, 4), (2, 4), (5, 4), (2, 2)])))
        for _ in range(rng.randint(0, 3)):
            # quarter notes only, so that a quarter added through the composition always fits
            t.add_notes(rng.choice(IN_ALL + [None]), 4)
        if rng.random() < 0.5:
            comp.add_track(t)
        else:
            comp + t
        tracks.append(t)
        check(len(comp) == len(tracks), where + ": length does not follow tracks")
        check(list(comp.selected_tracks) == [len(tracks) - 1], where + ": new track not selected")
        # a note right after add_track reaches the new track only
        snaps = [snapshot(x) for x in tracks]
        note = rng.choice(IN_ALL)
        comp.add_note(note)
        for j, x in enumerate(tracks):
            if j == len(tracks) - 1:
                check(flat(x) and names(flat(x)[-1][2]) == expected_content(note),
                      where + ": selected track did not get the note")
                check(sum(len(b) for b in snapshot(x)) == sum(len(b) for b in snaps[j]) + 1,
                      where + ": selected track got more than one item")
            else:
                check(snapshot(x) == snaps[j], where + ": unselected track %d changed" % j)
    for i, t in enumerate(tracks):
        check(comp[i] is t, where + ": comp[%d] is not its track" % i)
    check([x for x in comp] == tracks, where + ": iteration does not follow tracks")
    for _ in range(6):
        sel = sorted(rng.sample(range(len(tracks)), rng.randint(0, len(tracks))))
        comp.selected_tracks = list(sel)
        snaps = [snapshot(x) for x in tracks]
        counts = [len(flat(x)) for x in tracks]
        item = rng.choice([rng.choice(IN_ALL), Note("A", 4), NoteContainer(["C-4", "E-4"])])
        if rng.random() < 0.5:
            comp.add_note(item)
        else:
            comp + item
        for j, x in enumerate(tracks):
            if j in sel:
                check(len(flat(x)) == counts[j] + 1, where + ": selected track %d missed the note" % j)
                e = flat(x)[-1]
                check(e[1] == 4 and names(e[2]) == expected_content(item),
                      where + ": wrong item in selected track %d" % j)
                check(sum(snapshot(x), [])[:-1] == sum(snaps[j], []),
                      where + ": earlier music of track %d changed" % j)
            else:
                check(snapshot(x) == snaps[j], where + ": unselected track %d changed" % j)
        check(len(comp) == len(tracks), where + ": add_note changed the number of tracks")
    CASES += 1


def equality_cases():
    global CASES
    for seed in range(40):
        a, acc_a = run_sequence(seed)
        b, acc_b = run_sequence(seed)
        check(a == b and not (a != b), "tracks built alike differ (seed %d)" % seed)
        c, acc_c = run_sequence(seed + 1000)
        same = snapshot(a) == snapshot(c)
        if acc_a != acc_c and [len(x) for x in snapshot(a)] != [len(x) for x in snapshot(c)]:
            check(a != c and not (a == c), "different tracks compare equal (seed %d)" % seed)
        ca, cb, cc = Composition(), Composition(), Composition()
        ca.add_track(a)
        cb.add_track(b)
        cc.add_track(a)
        cc.add_track(c)
        check(ca == cb and not (ca != cb), "compositions built alike differ")
        check(ca != cc and not (ca == cc), "compositions of different length compare equal")
        CASES += 1
    t, s, u = Track(), Track(), Track()
    t + "C"; t + "E"
    s + "E"; s + "G#"
    u + "E"; u + "G#"
    check(t != s and s == u, "equality does not follow contents")
    check(Track(Piano()) == Track() == Track(Guitar()), "empty tracks differ")
    r1, r2 = Track(), Track()
    r1.add_notes(None, 4); r2.add_notes(None, 4)
    check(r1 == r2, "rest tracks differ")
    r2.add_notes("C", 4)
    check(r1 != r2, "tracks with different contents compare equal")


def bounded_exhaustive():
    """All sequences of up to 4 items over a small alphabet, per meter."""
    global CASES
    import itertools
    alphabet = [("C", 4), (None, 2), (NoteContainer(["E", "G"]), 1), ("A", 8), (None, 3)]
    for meter in [(4, 4), (3, 4), (6, 8), (2, 4)]:
        for n in range(1, 5):
            for seq in itertools.product(alphabet, repeat=n):
                t = Track()
                t.add_bar(Bar("G", meter))
                accepted = []
                for item, v in seq:
                    before = [b for b in snapshot(t) if b]
                    res = t.add_notes(item, v)
                    if res:
                        accepted.append((v, expected_content(item)))
                    else:
                        check(res is False, "result not a bool")
                        check([b for b in snapshot(t) if b] == before, "rejected item changed track")
                check_structure(t, accepted, "exhaustive %r %r" % (meter, [(str(i), v) for i, v in seq]))
                for b in t.bars:
                    check(b.key == t.bars[0].key and tuple(b.meter) == meter, "key/meter not inherited")
                CASES += 1


def main():
    try:
        for seed in range(250):
            run_sequence(seed)
        rests_and_ranges()
        for seed in range(200):
            run_from_chords(seed)
        for seed in range(80):
            run_composition(seed)
        equality_cases()
        bounded_exhaustive()
    except Failure as exc:
        print("PROPERTY C14 VIOLATED: %s" % exc)
        return 1
    print("C14 holds on %d cases" % CASES)
    return 0


if __name__ == "__main__":
    sys.exit(main())
