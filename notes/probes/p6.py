import itertools
from mingus.core import notes, intervals, keys, chords
from mingus.core.mt_exceptions import *
L='CDEFGAB'
NAT={'C':0,'D':2,'E':4,'F':5,'G':7,'A':9,'B':11}
def pc(n): return (NAT[n[0]]+n.count('#')-n.count('b'))%12
# formula: list of (degree number (1-based letter steps+1), semitones)
F={'m':[(3,3),(5,7)],'M':[(3,4),(5,7)],'':[(3,4),(5,7)],'dim':[(3,3),(5,6)],'aug':[(3,4),(5,8)],'+':[(3,4),(5,8)],
'7#5':[(3,4),(5,8),(7,10)],'M7+5':[(3,4),(5,8),(7,10)],'M7+':[(3,4),(5,8),(7,11)],'m7+':[(3,4),(5,8),(7,10)],'7+':[(3,4),(5,8),(7,11)],
'sus47':[(4,5),(5,7),(7,10)],'7sus4':[(4,5),(5,7),(7,10)],'sus4':[(4,5),(5,7)],'sus2':[(2,2),(5,7)],'sus':[(4,5),(5,7)],'11':[(5,7),(7,10),(4,5)],'add11':[(5,7),(7,10),(4,5)],
'sus4b9':[(4,5),(5,7),(2,1)],'susb9':[(4,5),(5,7),(2,1)],'m7':[(3,3),(5,7),(7,10)],'M7':[(3,4),(5,7),(7,11)],'dom7':[(3,4),(5,7),(7,10)],'7':[(3,4),(5,7),(7,10)],
'm7b5':[(3,3),(5,6),(7,10)],'dim7':[(3,3),(5,6),(7,9)],'m/M7':[(3,3),(5,7),(7,11)],'mM7':[(3,3),(5,7),(7,11)],'m6':[(3,3),(5,7),(6,9)],'M6':[(3,4),(5,7),(6,9)],'6':[(3,4),(5,7),(6,9)],
'6/7':[(3,4),(5,7),(6,9),(7,10)],'67':[(3,4),(5,7),(6,9),(7,10)],'6/9':[(3,4),(5,7),(6,9),(2,2)],'69':[(3,4),(5,7),(6,9),(2,2)],
'9':[(3,4),(5,7),(7,10),(2,2)],'add9':[(3,4),(5,7),(7,10),(2,2)],'7b9':[(3,4),(5,7),(7,10),(2,1)],'7#9':[(3,4),(5,7),(7,10),(2,3)],'M9':[(3,4),(5,7),(7,11),(2,2)],'m9':[(3,3),(5,7),(7,10),(2,2)],
'7#11':[(3,4),(5,7),(7,10),(4,6)],'m11':[(3,3),(5,7),(7,10),(4,5)],'M13':[(3,4),(5,7),(7,11),(2,2),(6,9)],'m13':[(3,3),(5,7),(7,10),(2,2),(6,9)],'13':[(3,4),(5,7),(7,10),(2,2),(6,9)],'add13':[(3,4),(5,7),(7,10),(2,2),(6,9)],
'7b5':[(3,4),(5,6),(7,10)],'hendrix':[(3,4),(5,7),(7,10),(3,3)],'7b12':[(3,4),(5,7),(7,10),(3,3)],'5':[(5,7)]}
print("meaning-only:", set(chords.chord_shorthand_meaning)-set(chords.chord_shorthand), "builder-only:", set(chords.chord_shorthand)-set(chords.chord_shorthand_meaning))
print("formula keys == meaning keys", set(F)==set(chords.chord_shorthand_meaning))
roots=[l+a for l in L for a in ['','#','b','##','bb','###','bbb']]
bad=0
for sh in chords.chord_shorthand:
    for r in roots:
        try: c=chords.from_shorthand(r+sh)
        except Exception as e: print("EXC",r+sh,type(e).__name__,e); bad+=1; continue
        exp=[(L[(L.index(r[0])+d-1)%7],(pc(r)+s)%12) for d,s in F[sh]]
        got=[(n[0],pc(n)) for n in c[1:]]
        if c[0]!=r or got!=exp:
            bad+=1
            if bad<20: print("BAD",r+sh,c,exp)
print("bad",bad)
for s in ['Cmin7','Cmi7','C-7','Cmaj7','Cma7','Cmin/maj7','C-/ma7','A/G','Am/M7/G#','C6/9/E','Dm|G','C|C','NC','N.C.','Cm7|NC']:
    try: print(s, chords.from_shorthand(s))
    except Exception as e: print(s,type(e).__name__,e)
print(chords.from_shorthand(['C','Am',['D']]) if True else 0)
for s in ['H','c','Cfoo','C/','C/H','C/g','', 'C|','|C','C||C','Cm7/','Cdim9','C#b5','Bb5','C/Gb','C/G/E']:
    try: print(repr(s), chords.from_shorthand(s))
    except Exception as e: print(repr(s),type(e).__name__,e)
