import random, collections
from fractions import Fraction as Fr
from mingus.containers import *
import mingus.core.value as V
vocab=[]
for b in V.base_values:
    vocab.append((b,Fr(1)/Fr(b)))
    for d in (1,2,3,4): vocab.append((V.dots(b,d),Fr(1)/Fr(b)*(2-Fr(1,2**d))))
    vocab+=[(V.triplet(b),Fr(2,3)/Fr(b)),(V.quintuplet(b),Fr(4,5)/Fr(b)),(V.septuplet(b),Fr(4,7)/Fr(b))]
st=collections.Counter(); ex={}
METERS=[(4,4),(3,4),(6,8),(12,8),(5,4),(2,2),(7,8),(3,8),(1,1),(0,0)]
for seed in range(20000):
    rng=random.Random(seed); m=rng.choice(METERS); b=Bar('C',m); L=Fr(m[0],m[1]) if m!=(0,0) else None
    model=[]  # (start,exactlen,fv,kind)
    small=[v for v in vocab if v[1]<=Fr(1,4)] if rng.random()<0.5 else vocab
    for step in range(rng.randint(1,60)):
        op=rng.random(); tot=sum((e[1] for e in model),Fr(0))
        if op<0.6:
            fv,ev=rng.choice(small); content=rng.choice([None,'C',['C','E'],Note('G'),NoteContainer(['A','C'])])
            r=b.place_notes(content,fv); exp=(L is None) or (tot+ev<=L)
            if r!=exp: st['accept']+=1; ex.setdefault('accept',(seed,m,step,float(tot),fv,r,exp))
            if exp: model.append((tot,ev,fv,content is None))
            if r!=exp: break
        elif op<0.7:
            unit=m[1] if m[1]!=0 else 4; ev=Fr(1,unit); r=b+ 'D'; exp=(L is None) or (tot+ev<=L)
            if r!=exp: st['plus']+=1; break
            if exp: model.append((tot,ev,unit,False))
        elif op<0.85 and model:
            b.remove_last_entry(); model.pop()
        elif model:
            i=rng.randrange(len(model))
            if rng.random()<0.5: b[i]=rng.choice(['E',['E','G'],Note('B')]); model[i]=model[i][:3]+(False,)
            elif not model[i][3]: b.place_notes_at('F',b.bar[i][0])
        tot=sum((e[1] for e in model),Fr(0))
        if len(b)!=len(model): st['len']+=1; break
        for (s0,ev,fv,isrest),ent in zip(model,b.bar):
            if abs(ent[0]-float(s0))>1e-9 or ent[1]!=fv or (ent[2] is None)!=isrest: st['entry']+=1; ex.setdefault('entry',(seed,step,ent,(float(s0),fv,isrest)))
        if abs(b.current_beat-float(tot))>1e-9: st['cb']+=1
        if abs(b.current_beat+b.space_left()-b.length)>1e-9: st['space']+=1
        expfull = bool(model) and L is not None and L>0 and (L-tot)<=Fr(1,1000)
        if b.is_full()!=expfull: st['full']+=1; ex.setdefault('full',(seed,m,step,float(L-tot) if L else None,b.is_full()))
    st['runs']+=1
print(st, ex)
