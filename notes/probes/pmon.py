import sys, time
from mingus.core import meter
class StepBudgetExceeded(Exception): pass
M=sys.monitoring; TOOL=M.PROFILER_ID
M.use_tool_id(TOOL,'rv-steps')
state={'n':0,'budget':200000,'active':False}
def on_line(code, line):
    if not state['active']: return M.DISABLE if False else None
    state['n']+=1
    if state['n']>state['budget']:
        state['active']=False
        raise StepBudgetExceeded(code.co_name)
def on_jump(code, src, dst):
    return on_line(code, dst)
M.register_callback(TOOL, M.events.LINE, on_line)
def bounded(f,*a):
    state['n']=0; state['active']=True
    M.set_local_events(TOOL, f.__code__, M.events.LINE)
    try: return f(*a), state['n']
    except StepBudgetExceeded: return 'BUDGET', state['n']
    finally:
        state['active']=False; M.set_local_events(TOOL, f.__code__, 0)
for d in (4, 2**40, 2.0**1000, 0.5, float('nan'), 3.5):
    t=time.time(); print(d, bounded(meter.valid_beat_duration,d), round(time.time()-t,3))
