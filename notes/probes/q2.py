import collections
from mingus.core import notes, intervals
L='CDEFGAB'; NAT={'C':0,'D':2,'E':4,'F':5,'G':7,'A':9,'B':11}; MAJ=[0,2,4,5,7,9,11]
NUM=['unison','second','third','fourth','fifth','sixth','seventh']
def acc(n): return n.count('#')-n.count('b')
def pure(k): return [l+a for l in L for a in ['']+['#'*i for i in range(1,k+1)]+['b'*i for i in range(1,k+1)]]
for k in (2,3,4,5):
    names=pure(k); bad=collections.Counter(); ex={}; tot=0
    for a in names:
        for b in names:
            num=(L.index(b[0])-L.index(a[0]))%7
            d=(NAT[b[0]]-NAT[a[0]])%12+acc(b)-acc(a) if num else acc(b)-acc(a)
            if not 0<=d<=11: continue
            tot+=1
            off=d-MAJ[num]
            q='major' if off==0 else 'minor' if off==-1 else 'diminished' if off<-1 else 'augmented'
            if off==0 and num in (3,4): q='perfect'
            exp=q+' '+NUM[num]
            lg=intervals.determine(a,b); sh=intervals.determine(a,b,True)
            if lg!=exp: bad['long']+=1; ex.setdefault('long',(a,b,lg,exp))
            if intervals.from_shorthand(a,sh)!=b: bad['inv']+=1; ex.setdefault('inv',(a,b,sh,intervals.from_shorthand(a,sh)))
    print(k,tot,dict(bad),ex)
