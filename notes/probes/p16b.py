import os, tempfile
from smf import parse
from mingus.containers import *
from mingus.midi import midi_file_out as MO
tmp=tempfile.mkdtemp(); f=os.path.join(tmp,'a.mid')
def notes(fn):
    fmt,ntr,div,trs=parse(open(fn,'rb').read())
    return [[(e[0],e[2],e[3],e[4]) if e[2]!='meta' else (e[0],'meta',e[3]) for e in t] for t in trs]
b=Bar(); b.place_notes('C',4); b.place_rest(4)
MO.write_Bar(f,b,repeat=1); print('bar',notes(f))
t=Track(); t.add_bar(b); MO.write_Track(f,t,repeat=1); print('track',notes(f))
MO.write_Note(f,Note('C',4,channel=3,velocity=77),repeat=2); print('note',notes(f))
MO.write_NoteContainer(f,NoteContainer(['C','E']),repeat=1); print('nc',notes(f))
b2=Bar(); b2.place_rest(4); b2.place_notes('C',4)
t2=Track(); t2.add_bar(b); t2.add_bar(b2); MO.write_Track(f,t2); print('track2',notes(f))
