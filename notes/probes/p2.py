import itertools
from mingus.core import notes, intervals, keys, scales, chords, progressions, value, meter
L='CDEFGAB'
NAT={'C':0,'D':2,'E':4,'F':5,'G':7,'A':9,'B':11}
def pc(n): return (NAT[n[0]]+n.count('#')-n.count('b'))%12
def acc(n): return n.count('#')-n.count('b')
names=[l+a for l in L for a in ['','#','b','##','bb']]
# C03 determine / from_shorthand inverse
MAJ=[0,2,4,5,7,9,11]
bad=0;tot=0
for a in names:
  for b in names:
    num=(L.index(b[0])-L.index(a[0]))%7
    # ascending distance counted along letters
    dist = (NAT[b[0]]-NAT[a[0]])%12 + acc(b)-acc(a)
    if num==0: dist = acc(b)-acc(a)
    if not (0<=dist<=11): continue
    tot+=1
    sh=intervals.determine(a,b,True); lg=intervals.determine(a,b)
    off=dist-MAJ[num]
    back=intervals.from_shorthand(a,sh)
    if back!=b:
        bad+=1
        if bad<15: print("C03 inv",a,b,sh,lg,back,off)
print("C03 pairs",tot,"bad",bad)
# unison with dist<0?
print(intervals.determine('C','Cb',True), intervals.determine('C','C##',True), intervals.determine('C','C##'), intervals.determine('Cb','C#',True))
# from_shorthand up/down
shs=[a+d for a in ['','#','b','##','bb'] for d in '1234567']
bad=0
for n in names:
  for sh in shs:
    size=MAJ[int(sh[-1])-1]+sh.count('#')-sh.count('b')
    up=intervals.from_shorthand(n,sh,True); dn=intervals.from_shorthand(n,sh,False)
    okup = up and up[0]==L[(L.index(n[0])+int(sh[-1])-1)%7] and (pc(up)-pc(n))%12==size%12
    okdn = dn and dn[0]==L[(L.index(n[0])-int(sh[-1])+1)%7] and (pc(n)-pc(dn))%12==size%12
    rt = up and intervals.from_shorthand(up,sh,False)
    if not(okup and okdn and rt==n):
        bad+=1
        if bad<15: print("C03 sh",n,sh,up,dn,rt)
print("C03 sh bad",bad)
x=['C','E']; print(intervals.invert(x), x)
print(intervals.from_shorthand('C','8'), intervals.from_shorthand('H','3'), intervals.from_shorthand('C',''))
