import random, collections
from fractions import Fraction as Fr
from mingus.containers import *
import mingus.core.value as V
from mingus.containers.mt_exceptions import *
vocab=[]
for b in [1,2,4,8,16,32]:
    vocab.append((b,Fr(1,b)))
    vocab.append((V.dots(b),Fr(3,2*b))); vocab.append((V.triplet(b),Fr(2,3*b))); vocab.append((V.quintuplet(b),Fr(4,5*b)))
st=collections.Counter(); ex={}
for seed in range(4000):
    rng=random.Random(seed)
    meter=rng.choice([(4,4),(3,4),(6,8),(5,8),(2,2)]); key=rng.choice(['C','G','eb','F#'])
    ins=rng.choice([None,Instrument(),Piano(),MidiInstrument()])
    t=Track(ins); t.add_bar(Bar(key,meter)); acc=[]; L=Fr(meter[0],meter[1])
    for step in range(rng.randint(1,40)):
        fv,ev=rng.choice(vocab)
        item=rng.choice([None,'C',Note('E',4),['C','G'],NoteContainer(['D','A'])])
        before=[(b,d,str(n)) for b,d,n in t.get_notes()]; nb=len(t)
        # model: space in last bar
        used=sum((e for _,e in acc_last),Fr(0)) if False else None
        try: r=t.add_notes(item,fv)
        except Exception as e: st['raise '+type(e).__name__]+=1; ex.setdefault('raise',(seed,repr(e))); break
        after=[(b,d,str(n)) for b,d,n in t.get_notes()]
        if r:
            if after[:-1]!=before or after[-1][1]!=fv: st['accept-bad']+=1
            acc.append((fv,ev,item))
        else:
            if after!=before: st['reject-changed']+=1
        if not t.test_integrity(): st['integrity']+=1; ex.setdefault('integ',(seed,step))
        if any((b.key.key,b.meter)!=(key,meter) for b in t.bars): st['inherit']+=1
    # model replay for accept decisions
    t2=Track(); t2.add_bar(Bar(key,meter)); 
    got=[(d) for _,d,_ in t.get_notes()]
    if got!=[a[0] for a in acc]: st['order']+=1
    tot=sum(Fr(0)+e for _,e,_ in acc)
    ft=sum(1.0/d for _,d,_ in t.get_notes())
    if abs(float(tot)-ft)>1e-9: st['total']+=1
    st['runs']+=1
print(st, ex)
# exact model of accept: bar-level
