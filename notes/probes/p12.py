import random, collections
from mingus.containers import Note, NoteContainer
nc=NoteContainer(['C','E','G']); print(nc, nc+'B', nc+['C',['D',5],['F',5,{'velocity':3}]], nc-'C', nc.remove_note('D',4), nc.remove_note('D',5))
print(NoteContainer(['Cb','B']), NoteContainer(['C','B#']), NoteContainer(['B','Cb']), NoteContainer(['B#','C']),NoteContainer(['E','Fb']), NoteContainer(['C','Dbb']))
a=NoteContainer(['C','E']); b=NoteContainer([Note('E',4),Note('B#',3)]); print(a==b, len(a), Note('C') in a, Note('B#',3) in a, a.get_note_names())
print(NoteContainer().from_chord_shorthand('Am'), NoteContainer().from_interval_shorthand('C','5',False), NoteContainer().from_progression_shorthand('VI'), NoteContainer().from_progression_shorthand('X'))
print(NoteContainer(['C','E','G']).is_consonant(), NoteContainer(['C','D']).is_dissonant(), NoteContainer(['C','F']).is_perfect_consonant(False), NoteContainer([]).is_consonant())
x=NoteContainer(['C','E']); y=NoteContainer(x); y.notes[0].name='D'; print(x, y)  # aliasing of Note objects
x=NoteContainer(['C','E']); x.add_notes(x); print(x)
x=NoteContainer(['C','E','G','C']); print(x)
x=NoteContainer(); x.add_notes([Note('C',5),'E']); print(x)
x=NoteContainer(); x.add_notes([Note('C',5),Note('C',3),'E']); print(x)
