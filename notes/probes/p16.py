import os, tempfile, collections
from smf import parse
from mingus.containers import *
from mingus.midi import midi_file_out as MO, midi_file_in as MI
from mingus.midi.midi_track import MidiTrack
import math
tmp=tempfile.mkdtemp()
def dump(fn):
    b=open(fn,'rb').read(); fmt,ntr,div,trs=parse(b); print(fmt,ntr,div)
    for t in trs:
        for e in t: print('  ',e)
f=os.path.join(tmp,'a.mid')
b=Bar('Eb',(3,4)); b.place_rest(4); b.place_notes(['C','E'],4); b.place_notes(Note('G',4,velocity=99,channel=5),8)
MO.write_Bar(f,b,bpm=100); dump(f)
t=Track(MidiInstrument()); t.instrument.instrument_nr=13; t.name='Tr'; t.add_bar(b); MO.write_Track(f,t); dump(f)
b2=Bar('f#',(6,8)); b2.place_notes('A',8)
MO.write_Bar(f,b2); dump(f)
# varbyte
mt=MidiTrack()
def std(n):
    out=[n&0x7f]; n>>=7
    while n: out.append((n&0x7f)|0x80); n>>=7
    return bytes(reversed(out))
bad=[]
for k in range(0,5):
    for n in range(max(0,128**k-300),128**k+300):
        if n<2**28:
            try:
                if mt.int_to_varbyte(n)!=std(n): bad.append(n)
            except Exception as e: bad.append((n,repr(e)))
for n in range(0,70000):
    if mt.int_to_varbyte(n)!=std(n): bad.append(n)
print("vlq bad",bad[:10],len(bad))
print([ (m,int(math.log(m,2))) for m in (1,2,4,8,16,32,64,128) if int(math.log(m,2))!=m.bit_length()-1])
for bpm in (3,4,120,1000):
    try: MidiTrack(bpm); print(bpm,'ok')
    except Exception as e: print(bpm,repr(e))
