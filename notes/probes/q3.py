import collections
from mingus.core import notes, intervals, keys, chords, progressions as P
L='CDEFGAB'; NAT={'C':0,'D':2,'E':4,'F':5,'G':7,'A':9,'B':11}
def pc(n): return (NAT[n[0]]+n.count('#')-n.count('b'))%12
num=['I','II','III','IV','V','VI','VII']
suffixes=['','7']+[s for s in chords.chord_shorthand if s!='']
bad=collections.Counter(); ex={}; n=0
def wf(s):
    r,a,suf=P.parse_string(s)
    return r in num and (suf in ('','7') or suf in chords.chord_shorthand)
for key in keys.major_keys:
  for nu in num:
    for suf in suffixes:
      for p in range(-3,4):
        s=('#'*p if p>0 else 'b'*-p)+nu+suf
        orig=[s,'IV']; 
        root=P.to_chords(s,key)[0][0]
        tri=P.to_chords(('#'*p if p>0 else 'b'*-p)+nu,key)[0]
        for rule in (P.substitute_harmonic,P.substitute_minor_for_major,P.substitute_major_for_minor,P.substitute_diminished_for_diminished,P.substitute_diminished_for_dominant,P.substitute):
          for ign in ((False,True) if rule is not P.substitute else (0,)):
            arg=list(orig)
            try: res=rule(arg,0,ign)
            except Exception as e: bad[rule.__name__+' raise']+=1; ex.setdefault(rule.__name__+' raise',(s,key,repr(e))); continue
            n+=1
            if arg!=orig and not (rule is P.substitute): bad['mut '+rule.__name__]+=1
            for r in res:
                if not wf(r): bad['illformed '+rule.__name__]+=1; ex.setdefault('ill '+rule.__name__,(s,r)); continue
                try: ch=P.to_chords(r,key)
                except Exception as e: bad['tochords-raise '+rule.__name__]+=1; ex.setdefault('tcr'+rule.__name__,(s,r,repr(e))); continue
                if len(ch)!=1: bad['tochords-empty']+=1; continue
                rr=ch[0][0]
                if rule is P.substitute_harmonic:
                    t2=P.to_chords(P.tuple_to_string((P.parse_string(r)[0],P.parse_string(r)[1],'')),key)[0]
                    if len(set(tri)&set(t2))<2: bad['harm-common']+=1; ex.setdefault('harm',(s,key,r,tri,t2))
                if rule is P.substitute_minor_for_major and (pc(rr)-pc(root))%12!=3: bad['m4M-root']+=1; ex.setdefault('m4M',(s,key,r,root,rr))
                if rule is P.substitute_major_for_minor and (pc(rr)-pc(root))%12!=9: bad['M4m-root']+=1; ex.setdefault('M4m',(s,key,r,root,rr))
            if rule is P.substitute_diminished_for_diminished and res:
                rs=[root]+[P.to_chords(r,key)[0][0] for r in res]
                if any((pc(rs[i+1])-pc(rs[i]))%12!=3 for i in range(len(rs)-1)): bad['dim-cycle']+=1; ex.setdefault('dim',(s,key,res,rs))
print(n,dict(bad))
for k,v in ex.items(): print(k,v)
