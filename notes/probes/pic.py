import sys, time
sys.path.insert(0,'/tmp/deps')
import icontract
from mingus.core import notes, intervals, scales, chords
from mingus.containers import NoteContainer, Note
class PostBroken(Exception): pass
class InvBroken(Exception): pass
NAT={'C':0,'D':2,'E':4,'F':5,'G':7,'A':9,'B':11}
cnt={'n':0}
def pc_ok(note, result):
    cnt['n']+=1
    return result == (NAT[note[0]]+note.count('#')-note.count('b'))%12
orig=notes.note_to_int
wrapped=icontract.ensure(pc_ok, error=PostBroken)(orig)
# rebinding everywhere
import mingus, types
n=0
for name,mod in list(sys.modules.items()):
    if name.startswith('mingus') and mod:
        for k,v in list(vars(mod).items()):
            if v is orig: setattr(mod,k,wrapped); n+=1
print("rebound",n)
t=time.time(); 
for _ in range(20000): intervals.measure('C#','Gb')
print("20000 measure calls", time.time()-t, cnt)
def sorted_unique(self):
    ints=[int(x) for x in self.notes]
    return ints==sorted(set(ints))
NC2=icontract.invariant(sorted_unique, error=InvBroken)(NoteContainer)
print(NC2 is NoteContainer)
nc=NoteContainer(['C','E','G']); nc+'B'; print(nc)
try:
    nc.notes.append(Note('C',2)); nc.add_note('D',9)  # sorted by add_note → ok
    print(nc)
    nc[0]='B'   # __setitem__ breaks sortedness → invariant fires
    print(nc)
except InvBroken as e: print("InvBroken", str(e)[:200])
print(sys.version, hasattr(sys,'monitoring'))
