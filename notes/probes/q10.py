from mingus.containers import NoteContainer, Note
from mingus.core import chords, keys, progressions
import collections
L='CDEFGAB'
roots=[l+a for l in L for a in ['','#','b','##','bb']]
st=collections.Counter()
def chk(nc, names, tag):
    if [n.name for n in nc]!=names: st[tag+' order']+=1; return
    if nc[0].octave!=4: st[tag+' oct4']+=1
    for a,b in zip(nc.notes,nc.notes[1:]):
        if not (0<int(b)-int(a)<12): st[tag+' span']+=1; print(tag,nc,names)
    st[tag+' ok']+=1
for sh in chords.chord_shorthand:
    for r in roots:
        names=chords.from_shorthand(r+sh)
        chk(NoteContainer().from_chord_shorthand(r+sh), names, 'chord')
for k in keys.major_keys+keys.minor_keys:
    for nu in ['I','II','III','IV','V','VI','VII']:
        for suf in ['','7','m7','dim7']:
            for p in ['','b','#','bb']:
                names=progressions.to_chords(p+nu+suf,k)[0]
                chk(NoteContainer().from_progression_shorthand(p+nu+suf,k), names, 'prog')
print(st)
