import collections, itertools, math
from mingus.containers import Note, NoteContainer, Bar, Track
from mingus.containers.mt_exceptions import NoteFormatError as CNFE
from mingus.core.mt_exceptions import NoteFormatError as KNFE
import mingus.core.intervals as I
L='CDEFGAB'
NAT={'C':0,'D':2,'E':4,'F':5,'G':7,'A':9,'B':11}
names=[l+a for l in L for a in ['','#','b','##','bb']]
bad=collections.Counter(); ex={}
for n in names:
  for o in range(0,10):
    x=Note(n,o); v=12*o+NAT[n[0]]+n.count('#')-n.count('b')
    if int(x)!=v: bad['int']+=1
    if int(Note('%s-%d'%(n,o)))!=v: bad['dash']+=1
    if int(Note(repr(x).strip("'")))!=v: bad['repr']+=1
    c=Note(x)
    if int(c)!=v or c is x or c.name!=n or c.octave!=o: bad['copy']+=1
    if v>=0 and int(Note(v))!=v: bad['fromint']+=1
    if v>=0 and int(Note().from_int(v))!=v: bad['fromint2']+=1
    sh=x.to_shorthand(); y=Note().from_shorthand(sh)
    if (y.name,y.octave)!=(n,o): bad['helm']+=1; ex.setdefault('helm',[]).append((n,o,sh,y))
print(bad, ex.get('helm',[])[:8])
print(len([1 for e in ex.get('helm',[]) if 'b' not in e[0]]), "helm failures without flats")
# Hz
bad=collections.Counter()
for v in range(0,128):
  for sp in (440,415,432,444.5,466.16):
    x=Note(v); hz=x.to_hertz(sp)
    for cents in (-40,-20,0,20,40):
        y=Note().from_hertz(hz*2**(cents/1200.0),sp)
        if int(y)!=v: bad['hz']+=1; ex.setdefault('hz',[]).append((v,sp,cents,y))
    if abs(Note(v+12).to_hertz(sp)/hz-2)>1e-9: bad['oct']+=1
print(bad, ex.get('hz',[])[:5], Note('A',4).to_hertz(), Note('A',4).to_hertz(415))
# comparisons
import operator
ns=[Note(n,o) for n in names for o in (3,4,5)]
bad=0
for a in ns:
  for b in ns:
    for op in (operator.lt,operator.le,operator.eq,operator.ne,operator.gt,operator.ge):
        if op(a,b)!=op(int(a),int(b)): bad+=1
print("cmp bad",bad)
for args in [dict(velocity=-1),dict(velocity=128),dict(velocity=127),dict(velocity=0),dict(channel=-1),dict(channel=16),dict(channel=15),dict(channel=0)]:
    try: Note('C',4,**args); print(args,'ok')
    except Exception as e: print(args,repr(e))
for nm in ['H','c','C-4-4','C-x','','C#-','-4', 'C5']:
    try: print(nm, Note(nm))
    except Exception as e: print(repr(nm), type(e).__module__, repr(e))
print(CNFE is KNFE)
try: Note(3.5)
except Exception as e: print(repr(e))
x=Note('C',4,velocity=30,channel=3); y=Note(x); print(y.velocity,y.channel)
