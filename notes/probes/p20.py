import collections, itertools, random
from mingus.containers import *
from mingus.extra import tunings as T, tablature as TAB
from mingus.core.mt_exceptions import *
import mingus.core.chords as CH
allt=[t for k in T._known for t in T._known[k][1].values()]
print(len(allt), sum(1 for t in allt if any(isinstance(s,list) for s in t.tuning)), "with courses")
bad=collections.Counter()
for t in allt:
    for s,o in enumerate(t.tuning):
        base=o[0] if isinstance(o,list) else o
        for n in range(0,128):
            for mf in (0,12,24):
                fr=t.find_frets(Note(n),mf)[s]
                d=n-int(base); exp=d if 0<=d<=mf else None
                if fr!=exp: bad['frets']+=1
        for f in (0,1,24):
            if int(t.get_Note(s,f))!=int(base)+f: bad['getnote']+=1
        for f in (-1,25):
            try: t.get_Note(s,f); bad['norange']+=1
            except RangeError: pass
    for s in (-1,len(t.tuning)):
        try: t.get_Note(s,0); bad['norange-s']+=1
        except RangeError: pass
print(bad)
# begin_track on all tunings
lens=collections.Counter()
for t in allt:
    try:
        r=TAB.begin_track(t); lens['ok' if len(set(map(len,r)))==1 else 'UNEQUAL '+t.instrument+'/'+t.description]+=1
    except Exception as e: lens['exc '+type(e).__name__]+=1
print(lens)
g=T.get_tuning('Guitar','Standard',6,1)
# find_fingering brute force
def brute(t,notes,md=4):
    res=[]
    opens=[int(o[0] if isinstance(o,list) else o) for o in t.tuning]
    for strings in itertools.permutations(range(len(opens)),len(notes)):
        f=[(s,int(n)-opens[s]) for s,n in zip(strings,notes)]
        if any(not 0<=x[1]<=24 for x in f): continue
        nz=[x[1] for x in f if x[1]!=0]
        if nz and max(nz)-min(nz)>=md: continue
        res.append(f)
    return res
random.seed(3); bad=0
for _ in range(300):
    t=random.choice([x for x in allt if not any(isinstance(s,list) for s in x.tuning)])
    lo=min(int(o) for o in t.tuning)
    k=random.randint(1,min(4,len(t.tuning)))
    notes=[Note(random.randint(lo,lo+30)) for _ in range(k)]
    got=t.find_fingering(notes); exp=brute(t,notes)
    tot=[sum(f for _,f in x) for x in got]
    if sorted(map(tuple,got))!=sorted(map(tuple,exp)) or tot!=sorted(tot): bad+=1; print(t.instrument,notes,got[:3],exp[:3])
print("fingering bad",bad)
# chord fingering
st=collections.Counter()
for sh in ['','m','7','M7','m7','dim','aug','sus4','9','m11','6/9','13','5']:
  for r in ['C','E','A','F#','Bb','G']:
    nc=NoteContainer().from_chord(r+sh)
    try: fs=g.find_chord_fingering(nc)
    except Exception as e: st['raise '+type(e).__name__+' '+str(e)[:30]]+=1; continue
    st['n=%d'%(len(fs)>0)]+=1
    pcs={int(n)%12 for n in nc}
    for f in fs:
        snd={(int(g.tuning[i])+x)%12 for i,x in enumerate(f) if x is not None}
        nz=[x for x in f if x]
        if len(f)!=6 or not snd<=pcs or snd!=pcs or (nz and max(nz)-min(nz)>=4) or T.fingers_needed(f)>4 or any(x is not None and x>18 for x in f): st['badfing']+=1; print(r+sh,f,snd,pcs); break
print(st)
print(g.find_chord_fingering(NoteContainer().from_chord('Em11'))[:2] if True else 0)
