import itertools, sys
from mingus.core import notes, intervals, keys, scales, chords, progressions, value, meter
from mingus.core.mt_exceptions import *
# C01
print("C01", notes.remove_redundant_accidentals('C#b#'), notes.reduce_accidentals('C#b#'), notes.augment('C#b'))
for bad in ['H','c','C-','Cx','#','b','Bb5',' C']:
    r=[]
    for f in (notes.note_to_int, notes.reduce_accidentals, notes.is_valid_note):
        try: r.append(f(bad))
        except Exception as e: r.append(type(e).__name__)
    print(repr(bad), r)
for a in [(-1,'#'),(12,'#'),(3,'x'),(12,'x')]:
    try: print(notes.int_to_note(*a))
    except Exception as e: print(a, type(e).__name__)
# C02 unison constructors
print("C02", intervals.minor_unison('C#'), intervals.minor_unison('C#b'), intervals.major_unison('C#######'), intervals.augmented_unison('Cb#'))
names=[l+a for l in 'CDEFGAB' for k in range(0,4) for a in set(''.join(p) for p in itertools.product('#b',repeat=k))]
print(len(names))
cons = {'minor_second':(1,1),'major_second':(1,2),'minor_third':(2,3),'major_third':(2,4),'minor_fourth':(3,4),'major_fourth':(3,5),'perfect_fourth':(3,5),'minor_fifth':(4,6),'major_fifth':(4,7),'perfect_fifth':(4,7),'minor_sixth':(5,8),'major_sixth':(5,9),'minor_seventh':(6,10),'major_seventh':(6,11),'minor_unison':(0,11),'major_unison':(0,0),'augmented_unison':(0,1)}
L='CDEFGAB'
bad=0
for n in names:
    for c,(ls,st) in cons.items():
        r=getattr(intervals,c)(n)
        ok = r[0]==L[(L.index(n[0])+ls)%7] and (notes.note_to_int(r)-notes.note_to_int(n))%12==st and not('#' in r and 'b' in r) and len(r)<=7
        if not ok:
            bad+=1
            if bad<12: print("C02 bad",c,n,r)
print("C02 bad total",bad)
