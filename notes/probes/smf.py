import struct
def vlq(b,i):
    v=0;n=0
    while True:
        c=b[i]; i+=1; n+=1
        v=(v<<7)|(c&0x7f)
        if not c&0x80: break
        assert n<4, "vlq too long"
    return v,i
def parse(b):
    assert b[:4]==b'MThd' and struct.unpack('>I',b[4:8])[0]==6
    fmt,ntr,div=struct.unpack('>HHH',b[8:14]); i=14; tracks=[]
    while i<len(b):
        assert b[i:i+4]==b'MTrk', (i,b[i:i+4])
        ln=struct.unpack('>I',b[i+4:i+8])[0]; j=i+8; end=j+ln; t=0; ev=[]
        while j<end:
            d,j=vlq(b,j); t+=d; st=b[j]; j+=1
            assert st&0x80, "running status / bad status %x at %d"%(st,j)
            if st==0xff:
                ty=b[j]; j+=1; l,j=vlq(b,j); data=b[j:j+l]; j+=l; ev.append((t,d,'meta',ty,data))
            elif st>>4 in (0xc,0xd):
                ev.append((t,d,st>>4,st&15,b[j])); assert b[j]<128; j+=1
            else:
                assert b[j]<128 and b[j+1]<128; ev.append((t,d,st>>4,st&15,b[j],b[j+1])); j+=2
        assert j==end, (j,end)
        assert ev[-1][2:]==('meta',0x2f,b''), ev[-1]
        tracks.append(ev); i=end
    assert len(tracks)==ntr,(len(tracks),ntr)
    return fmt,ntr,div,tracks
