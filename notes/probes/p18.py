from mingus.containers import *
from mingus.midi.sequencer import Sequencer
from mingus.midi.sequencer_observer import SequencerObserver
import mingus.core.value as V
class Rec(Sequencer):
    def init(self): self.ev=[]
    def play_event(self,n,c,v): self.ev.append(('on',n,c,v))
    def stop_event(self,n,c): self.ev.append(('off',n,c))
    def sleep(self,s): self.ev.append(('sleep',round(s,6)))
    def instr_event(self,c,i,b): self.ev.append(('instr',c,i,b))
    def cc_event(self,c,ctl,v): self.ev.append(('cc',c,ctl,v))
class Obs(SequencerObserver):
    def __init__(self): self.ev=[]
    def play_int_note_event(self,n,c,v): self.ev.append(('on',n,c,v))
    def stop_int_note_event(self,n,c): self.ev.append(('off',n,c))
    def sleep(self,s): self.ev.append(('sleep',round(s,6)))
    def instr_event(self,c,i,b): self.ev.append(('instr',c,i,b))
    def cc_event(self,c,ctl,v): self.ev.append(('cc',c,ctl,v))
def bar(entries,meter=(4,4)):
    b=Bar('C',meter)
    for n,v in entries: assert b.place_notes(n,v)
    return b
def run(f):
    s=Rec(); o=Obs(); s.attach(o); s.attach(o); r=f(s); print(r, s.ev==o.ev, len(s.ev)); return s.ev
def summarize(ev):
    on={}; bad=[]; tot=0
    for e in ev:
        if e[0]=='on':
            k=(e[1],e[2])
            if on.get(k): bad.append(('retrigger',k))
            on[k]=on.get(k,0)+1
        elif e[0]=='off':
            k=(e[1],e[2])
            if not on.get(k): bad.append(('stop-unstarted',k))
            else: on[k]-=1
        elif e[0]=='sleep': tot+=e[1]
    return bad[:6], {k:v for k,v in on.items() if v}, round(tot,6)
b1=bar([('C',4),('E',4),('G',4),('B',4)]); b2=bar([('C',2),(Note('E',3,channel=2),2)])
print(summarize(run(lambda s:s.play_Bar(b1,1,120))))
print(summarize(run(lambda s:s.play_Bars([b1,b1],[1,2],120))))
print(summarize(run(lambda s:s.play_Bars([b1,b2],[1,2],120))))
bt=bar([('C',V.triplet(8))]*12); print(summarize(run(lambda s:s.play_Bars([bt,bt],[1,2],120))))
bt=bar([('C',6)]*6); print(summarize(run(lambda s:s.play_Bars([bt],[1],120))))
bq=bar([('C',5)]*5); print(summarize(run(lambda s:s.play_Bars([bq],[1],120))))
br=bar([(None,4),('C',4),(None,2)]); print(run(lambda s:s.play_Bars([br],[1],120)))
print(run(lambda s:s.play_Bar(br,1,60)))
t1=Track(MidiInstrument('Violin')); t1.add_bar(b1); t2=Track(); t2.add_bar(b1)
ev=run(lambda s:s.play_Tracks([t1,t2],[3,4],90)); print(ev[:3], summarize(ev))
c=Composition(); c.add_track(t1); c.add_track(t2); ev=run(lambda s:s.play_Composition(c)); print(ev[:3])
nc=NoteContainer(['C','E']); nc.bpm=60; bb=bar([('C',4),(nc,4),('G',2)]); ev=run(lambda s:s.play_Bar(bb,1,120)); print(ev)
s=Rec(); print(s.control_change(1,129,5), s.control_change(1,128,128), s.control_change(1,-1,5), s.control_change(1,5,-1), s.control_change(1,5,129), s.ev)
s=Rec(); o=Obs(); s.attach(o); s.detach(o); s.play_Note(Note('C')); print(o.ev, s.ev)
print(MidiInstrument.names.index('Violin'))
