import itertools, collections
from mingus.core import notes, intervals, keys, chords
L='CDEFGAB'
roots=[l+a for l in L for a in ['','#','b']]
roots2=[l+a for l in L for a in ['##','bb']]
ORD=['',', first inversion',', second inversion',', third inversion',', fourth inversion',', fifth inversion',', sixth inversion']
stats=collections.Counter(); ex={}
for sh in chords.chord_shorthand:
  for r in roots+roots2:
    base=chords.from_shorthand(r+sh)
    if len(base)<3: continue
    for k in range(len(base)):
        rot=base[k:]+base[:k]
        try: s=chords.determine(rot,True)
        except Exception as e: stats['short-raise:'+type(e).__name__]+=1; ex.setdefault('short-raise',(sh,r,k,repr(e))); s=None
        try: lg=chords.determine(rot,False)
        except Exception as e: stats['long-raise:'+type(e).__name__+':'+str(e)[:40]]+=1; ex.setdefault('long-raise:'+str(e)[:30],(sh,r,k,rot)); lg=None
        if s is None: continue
        hit=[i for i,nm in enumerate(s) if '|' not in nm and _safe(nm)==base] if False else None
        idx=[]
        for i,nm in enumerate(s):
            try:
                if chords.from_shorthand(nm)==base: idx.append(i)
            except Exception as e:
                stats['name-not-constructible']+=1; ex.setdefault('nc:'+nm,(sh,r,k,nm))
        if not idx:
            stats['not-recognised']+=1; ex.setdefault('nr:%s:%d'%(sh,k),(sh,r,k,rot,s))
        else:
            stats['recognised']+=1
            if lg is not None:
                if len(lg)!=len(s): stats['len-mismatch']+=1; ex.setdefault('lm',(sh,r,k,s,lg))
                else:
                    ok=any(lg[i].endswith(ORD[k]) and (k>0 or 'inversion' not in lg[i]) for i in idx)
                    if not ok: stats['ordinal-bad']+=1; ex.setdefault('ob:%s:%d'%(sh,k),(sh,r,k,s,lg))
print(stats)
for k,v in list(ex.items())[:60]: print(k,v)
