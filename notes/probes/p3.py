import itertools
from mingus.core import notes, intervals, keys, scales, chords, progressions, value, meter
from mingus.core.mt_exceptions import *
L='CDEFGAB'
NAT={'C':0,'D':2,'E':4,'F':5,'G':7,'A':9,'B':11}
def pc(n): return (NAT[n[0]]+n.count('#')-n.count('b'))%12
# C04
for k in keys.major_keys+keys.minor_keys:
    ns=keys.get_notes(k); K=keys.Key(k)
    steps=[(pc(ns[(i+1)%7])-pc(ns[i]))%12 for i in range(7)]
    print(k, ns, steps, keys.get_key_signature(k), keys.get_key_signature_accidentals(k), K.name, K.mode, K.signature)
for bad in ['H','Fb','cb','G#','',None, 'C ', 'CC']:
    for f in (keys.get_notes, keys.get_key_signature, keys.relative_major, keys.relative_minor, keys.Key, keys.get_key_signature_accidentals):
        try: r=f(bad)
        except Exception as e: r=type(e).__name__
        print(repr(bad), f.__name__, r)
for a in [-8,8,7,-7, 100]:
    try: print(keys.get_key(a))
    except Exception as e: print(a,type(e).__name__)
print(intervals.second('E#','C'), intervals.third('Ebb','Cb'), intervals.interval('C','D',1))
try: print(intervals.second('H','C'))
except Exception as e: print(type(e).__name__, e)
