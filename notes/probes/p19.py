from mingus.containers import *
from mingus.extra import lilypond as LP, musicxml as MX
import mingus.core.value as V
b=Bar('f#',(6,8)); 
for n,v in [('C',8),(['E','G#'],V.dots(8)),(None,16),('Bbb',V.triplet(8)),('C',V.triplet(8)),('C',V.triplet(8)),('A',V.dots(4,2)) ]:
    print(v, b.place_notes(n,v))
print(LP.from_Bar(b))
b0=Bar('C',(0,0)); b0.place_notes('C',0.25); b0.place_notes('D',0.5); b0.place_notes(Note('E',0),V.dots(0.5)); b0.place_notes(Note('E',8),V.quintuplet(16)); b0.place_notes(Note('E',3),V.septuplet(16)); b0.place_notes(Note('E',3),128)
try: print(LP.from_Bar(b0))
except Exception as e: print(repr(e))
t=Track(); t.add_bar(Bar('C',(4,4))); t.add_bar(Bar('G',(4,4))); t.add_bar(Bar('G',(3,4))); t.add_bar(Bar('e',(3,4))); t.add_bar(Bar()); print(LP.from_Track(t))
c=Composition(); c.set_title('T & <i>','sub'); c.set_author('Au "q"','e@x'); c.add_track(t); print(LP.from_Composition(c))
print(LP.from_Note(Note('C#',5)), LP.from_NoteContainer(NoteContainer(['C','E']),4), LP.from_NoteContainer(None,4), LP.from_NoteContainer(NoteContainer(),8))
t2=Track(MidiInstrument('Vio<lin>')); t2.name='Tr&k'; bb=Bar('Eb',(3,4)); bb.place_notes(['C','E','G'],4); bb.place_rest(8); bb.place_notes('Bb',V.dots(8)); bb.place_notes('A',V.triplet(8)); t2.add_bar(bb)
c2=Composition(); c2.set_title('T & <i>'); c2.set_author('A&B'); c2.add_track(t2)
x=MX.from_Composition(c2); print(x)
try: MX.from_Bar(Bar())
except Exception as e: print('empty bar', repr(e))
try: print(MX.from_Bar(b0)[:300])
except Exception as e: print('longa bar', repr(e))
