import random, collections, os
from mingus.containers import *
from mingus.extra import tunings as T, tablature as TAB
import mingus.core.value as V
g=TAB.default_tuning
def decode_system(lines, tuning):
    # lines: string lines, highest string first
    assert len(set(map(len,lines)))==1, [len(l) for l in lines]
    n=len(tuning.tuning); assert len(lines)==n
    body=[l[l.index('||')+2:] for l in lines]
    W=len(body[0]); groups=[]; cur=None
    for col in range(W):
        has=any(b[col].isdigit() for b in body)
        if has:
            if cur is None: cur=[col,col]
            else: cur[1]=col
        else:
            if cur is not None and not any(b[col]==' ' for b in body): groups.append(tuple(cur)); cur=None
            elif cur is not None: cur[1]=col
    out=[]
    for a,b in groups:
        ps=[]
        for i,bl in enumerate(body):
            s=bl[a:b+1].replace('-','').strip()
            if s:
                string=n-1-i
                ps.append(int(tuning.tuning[string])+int(s))
        out.append(sorted(ps))
    return out
st=collections.Counter(); ex={}
tun=[t for k in T._known for t in T._known[k][1].values() if not any(isinstance(s,list) for s in t.tuning)]
for seed in range(3000):
    rng=random.Random(seed); t=rng.choice([g,g,rng.choice(tun)])
    opens=sorted(int(x) for x in t.tuning)
    b=Bar('C',(4,4)); exp=[]
    for _ in range(rng.randint(1,6)):
        v=rng.choice([1,2,4,8,4,4])
        if rng.random()<0.2: ok=b.place_rest(v); continue
        k=rng.randint(1,min(3,len(opens)))
        notes=[]
        for _ in range(k): notes.append(Note(rng.randint(opens[0],opens[-1]+12)))
        nc=NoteContainer(notes)
        if not t.find_fingering(nc.notes): continue
        if b.place_notes(nc,v): exp.append(sorted(int(x) for x in nc))
    if len(b)==0: continue
    for w in (40,60,80,rng.randint(30,120)):
        try: txt=TAB.from_Bar(b,w,t)
        except Exception as e: st['raise '+type(e).__name__]+=1; ex.setdefault('raise',(seed,w,repr(e))); continue
        lines=txt.split(os.linesep)
        try: got=decode_system(lines[1:],t)
        except AssertionError as e: st['unequal']+=1; ex.setdefault('unequal',(seed,w,t.instrument,t.description,txt)); continue
        if got!=exp: st['mismatch w=%d'%w if False else 'mismatch']+=1; ex.setdefault('mm',(seed,w,exp,got,txt))
        else: st['ok']+=1
print(st)
for k,v in ex.items():
    print(k, v[:-1]); print(v[-1])
