import random, collections
from mingus.containers import Note, NoteContainer
NAT={'C':0,'D':2,'E':4,'F':5,'G':7,'A':9,'B':11}
def P(name,o): return 12*o+NAT[name[0]]+name.count('#')-name.count('b')
NAMES=['C','C#','Db','D','E','Fb','E#','F','G','A','Bb','B','Cb','B#','Dbb','F##']
class Model:
    def __init__(s): s.m=[]  # list of (pitch,name,oct) sorted by pitch
    def add(s,name,o=None):
        if o is None:
            if not s.m: o=4
            else:
                top=s.m[-1]; o=top[2]
                if P(name,o)<top[0]: o+=1
        p=P(name,o)
        if all(x[0]!=p for x in s.m):
            s.m.append((p,name,o)); s.m.sort(key=lambda x:x[0])
    def rm_name(s,name,o=None): s.m=[x for x in s.m if not(x[1]==name and (o is None or x[2]==o))]
    def rm_pitch(s,p): s.m=[x for x in s.m if x[0]!=p]
st=collections.Counter(); ex=[]
for seed in range(20000):
    rng=random.Random(seed); nc=NoteContainer(); m=Model(); hist=[]
    for step in range(rng.randint(1,12)):
        op=rng.randrange(9); n=rng.choice(NAMES); o=rng.randint(2,6)
        if op==0: nc.add_note(n); m.add(n); hist.append(('add',n))
        elif op==1: nc.add_note(n,o); m.add(n,o); hist.append(('addo',n,o))
        elif op==2: nc.add_note(Note(n,o)); m.add(n,o); hist.append(('addN',n,o))
        elif op==3:
            lst=[rng.choice(NAMES) for _ in range(rng.randint(1,3))]; nc+lst; [m.add(x) for x in lst]; hist.append(('+list',lst))
        elif op==4:
            lst=[[rng.choice(NAMES),rng.randint(2,6)] for _ in range(2)]; nc.add_notes(lst); [m.add(a,b) for a,b in lst]; hist.append(('addlist',lst))
        elif op==5: nc.remove_note(n); m.rm_name(n); hist.append(('rm',n))
        elif op==6: nc.remove_note(n,o); m.rm_name(n,o); hist.append(('rmo',n,o))
        elif op==7: nc-Note(n,o); m.rm_pitch(P(n,o)); hist.append(('-N',n,o))
        elif op==8:
            other=NoteContainer([Note(rng.choice(NAMES),rng.randint(2,6)) for _ in range(2)])
            for x in other.notes: m.add(x.name,x.octave)
            nc.add_notes(other); hist.append(('addNC',str(other)))
        got=[(int(x),x.name,x.octave) for x in nc.notes]
        if got!=m.m: st['mismatch']+=1; ex.append((seed,hist,got,m.m)); break
    st['runs']+=1
print(st); print(ex[:3])
