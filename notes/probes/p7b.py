import itertools, collections, random
from mingus.core import notes, intervals, keys, chords
L='CDEFGAB'
N21=[l+a for l in L for a in ['','#','b']]
st=collections.Counter(); ex={}
for t in itertools.product(N21,repeat=3):
    t=list(t)
    try: s=chords.determine(t,True); lg=chords.determine(t)
    except Exception as e: st['raise '+type(e).__name__]+=1; ex.setdefault('raise',(t,repr(e))); continue
    if len(s)!=len(lg): st['len']+=1
    for nm in s:
        try: c=chords.from_shorthand(nm)
        except Exception as e: st['unconstructible']+=1; ex.setdefault('unc',(t,nm)); continue
        if not set(t)<=set(c): st['notcontained']+=1; ex.setdefault('ncont:'+nm[len(t[0]):] if False else 'ncont',(t,nm,c))
        else: st['ok']+=1
    if s: st['nonempty']+=1
print(st); print(ex)
random.seed(1)
st=collections.Counter(); ex={}
for n in (4,5,6,7,8,9):
  for _ in range(20000 if n<8 else 2000):
    t=[random.choice(N21) for _ in range(n)]
    try: s=chords.determine(t,True)
    except Exception as e: st['%d short raise %s'%(n,type(e).__name__)]+=1; ex.setdefault('%d sr'%n,(t,repr(e))); s=None
    try: lg=chords.determine(t)
    except Exception as e: st['%d long raise %s %s'%(n,type(e).__name__,str(e)[:25])]+=1; ex.setdefault('%d lr %s'%(n,str(e)[:10]),(t,repr(e))); lg=None
    if s is not None and lg is not None and len(s)!=len(lg): st['len']+=1
    if s:
        st['%d nonempty'%n]+=1
        for nm in s:
            for part in nm.split('|'):
                try: chords.from_shorthand(part)
                except Exception as e: st['unconstructible '+part[1:]]+=1; ex.setdefault('unc'+part[1:],(t,nm))
print(st); 
for k,v in ex.items(): print(k,v)
# structured 6/7-note: M11 etc
for c in (['C','E','G','B','D','F'],['C','E','G','B','D','F','A'],['C','E','G','Bb','D','F','A'],['C','Eb','G','Bb','D','F','A']):
    for f in (True,False):
        try: print(c,f,chords.determine(c,f))
        except Exception as e: print(c,f,'RAISE',repr(e))
print(chords.determine([]),chords.determine(['C']),chords.determine(['C','G']),chords.determine(['C','G'],True))
