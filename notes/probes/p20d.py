import random, collections, os
from mingus.containers import *
from mingus.extra import tunings as T, tablature as TAB
from p20c_dec import decode_system
g=TAB.default_tuning
def mkbar(rng,t):
    opens=sorted(int(x) for x in t.tuning); b=Bar('C',(4,4)); exp=[]
    for _ in range(rng.randint(1,4)):
        v=rng.choice([1,2,4,4]); 
        if rng.random()<0.2: b.place_rest(v); continue
        nc=NoteContainer([Note(rng.randint(opens[0],opens[-1]+10)) for _ in range(rng.randint(1,3))])
        if not t.find_fingering(nc.notes): continue
        if b.place_notes(nc,v): exp.append(sorted(int(x) for x in nc))
    return b,exp
def systems(txt,n):
    # split into blocks of consecutive lines containing '||'
    blocks=[];cur=[]
    for l in txt.split(os.linesep):
        if '||' in l and l.strip()!='||': cur.append(l)
        else:
            if cur: blocks.append(cur); cur=[]
    if cur: blocks.append(cur)
    return blocks
st=collections.Counter(); ex={}
for seed in range(1500):
    rng=random.Random(seed); tr=Track(); exp=[]
    for _ in range(rng.randint(1,5)):
        b,e=mkbar(rng,g)
        if len(b)==0: continue
        tr.add_bar(b); exp+=e
    if len(tr)==0: continue
    for w in (80,60,120,100,rng.randint(40,200)):
        try: txt=TAB.from_Track(tr,w)
        except Exception as e: st['raise '+type(e).__name__]+=1; ex.setdefault('raise',(seed,w,repr(e))); continue
        got=[]
        try:
            for blk in systems(txt,6):
                lines=[l for l in blk if not l.lstrip().startswith('*')]
                # multiple bars per system: split on '|' boundaries? decode whole line: strip inner '|' 
                got+=decode_system([l for l in lines],g)
        except AssertionError as e: st['unequal']+=1; ex.setdefault('unequal',(seed,w,txt)); continue
        if got!=exp: st['mismatch']+=1; ex.setdefault('mm',(seed,w,exp,got,txt))
        else: st['ok']+=1
    c=Composition(); c.add_track(tr); 
    try: TAB.from_Composition(c); st['comp ok']+=1
    except Exception as e: st['comp raise '+type(e).__name__]+=1; ex.setdefault('comp',(seed,repr(e)))
print(st)
for k,v in ex.items():
    print(k, v[:-1]); print(v[-1])
