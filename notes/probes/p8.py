import itertools, collections, copy
from mingus.core import notes, intervals, keys, chords, progressions as P
L='CDEFGAB'
NAT={'C':0,'D':2,'E':4,'F':5,'G':7,'A':9,'B':11}
def pc(n): return (NAT[n[0]]+n.count('#')-n.count('b'))%12
allkeys=keys.major_keys+keys.minor_keys
fn=['tonic','supertonic','mediant','subdominant','dominant','submediant','subtonic']
num=['I','II','III','IV','V','VI','VII']
bad=collections.Counter()
for k in allkeys:
    ns=keys.get_notes(k)
    for i in range(7):
        tri=[ns[i],ns[(i+2)%7],ns[(i+4)%7]]; sev=tri+[ns[(i+6)%7]]
        for nm,exp in [(fn[i],tri),(fn[i]+'7',sev),(num[i],tri),(num[i]+'7',sev),(num[i].lower(),tri),(num[i].lower()+'7',sev)]:
            f=getattr(chords,nm,None)
            if f is None: bad['missing '+nm]+=0; continue
            if f(k)!=exp: bad['alias '+nm]+=1
        for s,exp in [(num[i],tri),(num[i].lower(),tri),(num[i]+'7',sev),(num[i].lower()+'7',sev)]:
            if P.to_chords(s,k)!=[exp]: bad['to_chords '+s]+=1
            if P.to_chords([s],k)!=[exp]: bad['to_chords list '+s]+=1
print(bad)
print([n for n in ['i','iv','v','i7','iv7','v7'] if hasattr(chords,n)], [n for n in [x.lower() for x in num]+[x.lower()+'7' for x in num] if not hasattr(chords,n)])
print(P.to_chords('bbII7','C'), P.to_chords('#IVdim7','C'), P.to_chords('IIII','C'), P.to_chords(['I','X','V'],'C'), P.to_chords('','C'))
try: print(P.to_chords('Ifoo','C'))
except Exception as e: print('Ifoo',repr(e))
# determine in major keys
bad=collections.Counter(); ex={}
for k in keys.major_keys:
    ns=keys.get_notes(k)
    for i in range(7):
        tri=[ns[i],ns[(i+2)%7],ns[(i+4)%7]]; sev=tri+[ns[(i+6)%7]]
        lower={'I':'I','II':'ii','III':'iii','IV':'IV','V':'V','VI':'vi','VII':'vii'}[num[i]]
        for ch,sh,lg in [(tri,lower,fn[i]),(sev,lower+'7',fn[i]+' seventh')]:
            try:
                a=P.determine(ch,k,True); b=P.determine(ch,k)
            except Exception as e: bad['raise']+=1; ex.setdefault('raise',(k,ch,repr(e))); continue
            if sh not in a: bad['short']+=1; ex.setdefault('short',(k,ch,a))
            if lg not in b: bad['long']+=1; ex.setdefault('long',(k,ch,b))
            if a and a[0]!=sh: bad['short-notfirst']+=1
            # inverse
            if P.to_chords(sh,k)!=[ch]: bad['inv']+=1
print(bad, ex)
print(P.determine(['A','C','E'],'C',True), P.determine(['A','C','E'],'C'), P.determine(['G','B','D','F'],'C'), P.determine([['C','E','G'],['G','B','D']],'C',True))
try: print(P.determine(['A','C','E'],'a',True))
except Exception as e: print('minor key', repr(e))
# parse/format
for s in ['I','bIM7','bbIIIm7','##V7','iv','#b#I','VIIdim7','bbbbbbbI','#######I']:
    t=P.parse_string(s); print(s,t,P.tuple_to_string(t))
# substitutions
print(P.substitute_diminished_for_diminished(['VII'],0), P.substitute_diminished_for_dominant(['VII'],0))
print(P.substitute_harmonic(['I','IV'],0), P.substitute_harmonic(['I7'],0), P.substitute_harmonic(['Im'],0), P.substitute_harmonic(['Im'],0,True))
print(P.substitute_minor_for_major(['VI'],0),P.substitute_minor_for_major(['Vm'],0),P.substitute_minor_for_major(['VIm7'],0),P.substitute_minor_for_major(['V'],0),P.substitute_minor_for_major(['V'],0,True))
print(P.substitute_major_for_minor(['I'],0),P.substitute_major_for_minor(['VM7'],0))
pr=['I','IV','V','I']; print(P.substitute(pr,0), pr); print(P.substitute(pr,0,1), pr)
