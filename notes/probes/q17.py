import itertools, time
from mingus.core import notes, intervals
from mingus.core.mt_exceptions import *
L='CDEFGAB'; NAT={'C':0,'D':2,'E':4,'F':5,'G':7,'A':9,'B':11}
def names(k): return [l+''.join(p) for l in L for j in range(k+1) for p in itertools.product('#b',repeat=j)]
t=time.time(); bad=0; N=names(12)
for n in N:
    net=n.count('#')-n.count('b'); pc=(NAT[n[0]]+net)%12
    if notes.note_to_int(n)!=pc: bad+=1
    a=notes.augment(n); d=notes.diminish(n)
    if a[0]!=n[0] or notes.note_to_int(a)!=(pc+1)%12 or d[0]!=n[0] or notes.note_to_int(d)!=(pc-1)%12: bad+=1
    r=notes.remove_redundant_accidentals(n)
    if r!=n[0]+('#'*net if net>0 else 'b'*-net): bad+=1
    x=notes.reduce_accidentals(n)
    if notes.note_to_int(x)!=pc or len(x)>2 or (len(x)==2 and ((x[1]=='#')!=(net>0))): bad+=1; print(n,x) if bad<5 else 0
    if not notes.is_valid_note(n): bad+=1
print('C01',len(N),bad,round(time.time()-t,1))
t=time.time(); bad=0; N=names(6); pcs={n:(NAT[n[0]]+n.count('#')-n.count('b'))%12 for n in N}
for a in N:
    pa=pcs[a]
    for b in N:
        m=(pcs[b]-pa)%12
        if intervals.measure(a,b)!=m: bad+=1
        if intervals.is_perfect_consonant(a,b)!=(m in (0,5,7)) or intervals.is_perfect_consonant(a,b,False)!=(m in (0,7)) or intervals.is_imperfect_consonant(a,b)!=(m in (3,4,8,9)): bad+=1
        if intervals.is_consonant(a,b)!=(m in (0,3,4,5,7,8,9)) or intervals.is_dissonant(a,b)!=(m not in (0,3,4,5,7,8,9)) or intervals.is_dissonant(a,b,True)!=(m not in (0,3,4,7,8,9)): bad+=1
print('C02 pairs',len(N)**2,bad,round(time.time()-t,1))
# hostile strings
bad=0; alpha='ABCDEFGahH#bx- 4'; import re
g=re.compile(r'^[A-G][#b]*$')
cnt=0
for k in (1,2,3):
    for tup in itertools.product(alpha,repeat=k):
        s=''.join(tup); cnt+=1; ok=bool(g.match(s))
        if notes.is_valid_note(s)!=ok: bad+=1
        for f in (notes.note_to_int,notes.reduce_accidentals):
            try: f(s); r=True
            except NoteFormatError: r=False
            except Exception as e: r='other'; 
            if r!=ok: bad+=1; print(repr(s),f.__name__,r) if bad<8 else 0
print('hostile',cnt,bad)
