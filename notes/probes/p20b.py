from mingus.containers import *
from mingus.extra import tunings as T, tablature as TAB
import mingus.core.value as V
print(TAB.from_Note(Note('C',4)))
print(TAB.from_NoteContainer(NoteContainer(['C','E','G']),40))
b=Bar(); b.place_notes(['E-2','B-2','E-3'],4); b.place_rest(8); b.place_notes(Note('A',4),8); b.place_notes(Note('D',5),4); b.place_notes(['C','E'],4)
print(TAB.from_Bar(b)); print(TAB.from_Bar(b,60))
t=Track(); t.add_bar(b); t.add_bar(b)
for w in (80,60,120,200):
    try: print(TAB.from_Track(t,w))
    except Exception as e: print(w,'RAISE',repr(e))
c=Composition(); c.add_track(t)
try: print(TAB.from_Composition(c))
except Exception as e: print('comp RAISE',repr(e))
try: TAB.from_Note(Note('C',1))
except Exception as e: print(repr(e))
try: TAB.from_Bar((lambda b:(b.place_notes('C-1',4),b)[1])(Bar()))
except Exception as e: print(repr(e))
try: print(TAB.from_Bar(Bar()))
except Exception as e: print('empty bar',repr(e))
