import os, tempfile, collections, io
from mingus.containers import *
from mingus.midi import midi_file_out as MO, midi_file_in as MI
tmp=tempfile.mkdtemp(); f=os.path.join(tmp,'a.mid')
def flat(track):
    out=[]
    for bar in track.bars:
        for beat,val,nc in bar.bar:
            out.append((round(288/val), tuple(sorted(int(n) for n in nc)) if nc else ()))
    return out
def rt(c,bpm=120):
    MO.write_Composition(f,c,bpm)
    try: c2,b2=MI.MIDI_to_Composition(f)
    except Exception as e: return 'RAISE '+repr(e)
    return b2,[(t.name, getattr(t.instrument,'instrument_nr',None), flat(t), [(b.key.key,b.meter) for b in t.bars]) for t in c2.tracks]
def mk(entries, key='C', meter=(4,4), instr=None, name='T'):
    t=Track(instr); t.name=name; t.add_bar(Bar(key,meter))
    for n,v in entries:
        if t.bars[-1].is_full(): t.add_bar(Bar(key,meter))
        if not t.bars[-1].place_notes(n,v): print("reject",n,v)
    c=Composition(); c.add_track(t); return c
print(rt(mk([('C',4),('E',4),(None,4),(['G','B'],4),('C',2),(None,2)])))
print(rt(mk([(None,4),('C',4),('E',2)])))
print(rt(mk([('C',4),('E',4)],key='G')))
print(rt(mk([('C',4),('E',4)],key='F')))
print(rt(mk([('C',4),('E',4)],key='a')))
print(rt(mk([('C',4),('E',4)],meter=(3,4))))
print(rt(mk([('C',4),('E',4),('G',4),('C',4)],meter=(6,8))))
mi=MidiInstrument(); mi.instrument_nr=42
print(rt(mk([('C',4),(None,4),('E',2)],instr=mi,name='Violins')))
print(rt(mk([('C',8),(None,1),(None,1),('E',8)],meter=(4,4))))
print(rt(mk([('C',4),(None,2),(None,4), (None,2),(None,2),('E',4)],meter=(3,4))))
n=Note('C',4,velocity=1,channel=9)
print(rt(mk([(n,4)])), )
bad=[]
for bpm in range(4,1001):
    MO.write_Composition(f,mk([('C',4)]),bpm); 
    if MI.MIDI_to_Composition(f)[1]!=bpm: bad.append(bpm)
print("bpm bad",bad[:10],len(bad))
# corrupt
good=open(f,'rb').read()
for name,data in [('hdr',b'XThd'+good[4:]),('trk',good[:14]+b'MTrx'+good[18:]),('fmt',good[:8]+b'\x00\x07'+good[10:]),('short',good[:10]),('empty',b'')]:
    open(f,'wb').write(data)
    try: print(name, MI.MIDI_to_Composition(f))
    except Exception as e: print(name,'RAISE',type(e).__name__,e)
# varbyte reader
mf=MI.MidiFile()
from mingus.midi.midi_track import MidiTrack
mt=MidiTrack(); bad=0
for n in list(range(0,20000))+[2**14-1,2**14,2**21-1,2**21,2**28-1,2**27+12345]:
    r=mf.parse_varbyte_as_int(io.BytesIO(mt.int_to_varbyte(n)))
    if r[0]!=n: bad+=1
print("varbyte rt bad",bad)
