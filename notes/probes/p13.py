import collections, itertools
from fractions import Fraction as Fr
from mingus.containers import Note, NoteContainer, Bar, Track, Composition, Suite, Instrument, Piano, Guitar, MidiInstrument
from mingus.containers.mt_exceptions import *
import mingus.core.value as V
# C13: fill to capacity
vocab={}
for b in V.base_values:
    vocab[('b',b)]=(b,Fr(1)/Fr(b))
    for d in (1,2,3):
        vocab[('d',b,d)]=(V.dots(b,d), Fr(1)/Fr(b)*(2-Fr(1,2**d)))
    vocab[('t',b)]=(V.triplet(b),Fr(2,3)/Fr(b)); vocab[('q',b)]=(V.quintuplet(b),Fr(4,5)/Fr(b)); vocab[('s',b)]=(V.septuplet(b),Fr(4,7)/Fr(b))
fails=[]
for m in [(4,4),(3,4),(6,8),(12,8),(5,4),(2,2),(7,8)]:
    cap=Fr(m[0],m[1])
    for k,(fv,ex) in vocab.items():
        n=cap/ex
        if n.denominator!=1 or n>2000: continue
        b=Bar('C',m)
        acc=0
        for i in range(int(n)):
            if not b.place_notes('C',fv): fails.append((m,k,i+1,int(n),b.current_beat)); break
        else:
            if not b.is_full(): fails.append((m,k,'notfull'))
            if b.place_notes('C',fv): fails.append((m,k,'overfill'))
print(len(fails), fails[:12])
b=Bar('C',(4,4)); print(b.place_notes('C',1), b.is_full(), b.space_left(), b.place_notes('C',128), b.current_beat)
b=Bar('C',(0,0)); print([b.place_notes('C',1) for _ in range(3)], b.is_full(), b.length, b+ 'E', b.bar[-1])
for m in [(4,3),(4,0),(3,6),(0,0),(4,4.0),(0,4),(-2,4)]:
    try: bb=Bar('C',m); print(m,bb.meter,bb.length)
    except Exception as e: print(m,repr(e))
b=Bar(); b+'C'; b+['E','G']; b+Note('A'); b+NoteContainer(['C','E']); b.place_rest(8); print(b, b.place_notes(None,8))
b[0]='D'; b[1]=['A','C']; b.place_notes_at('B',0.0); print(b)
try: b.place_notes_at('B',1.0); print(b)
except Exception as e: print(repr(e))
b.remove_last_entry(); print(b.current_beat, len(b))
