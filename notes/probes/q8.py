import itertools
exec(open('p6.py').read().split("print(\"meaning-only:\"")[0])
def names(k): return [l+''.join(p) for l in L for j in range(k+1) for p in itertools.product('#b',repeat=j)]
def pure(k): return [l+a for l in L for a in ['']+['#'*i for i in range(1,k+1)]+['b'*i for i in range(1,k+1)]]
bad=0; n=0
for sh in chords.chord_shorthand:
    for r in names(3)+pure(6):
        c=chords.from_shorthand(r+sh); n+=1
        exp=[(L[(L.index(r[0])+d-1)%7],(pc(r)+s)%12) for d,s in F[sh]]
        if c[0]!=r or [(x[0],pc(x)) for x in c[1:]]!=exp: bad+=1; print(r+sh,c) if bad<5 else 0
print(n,bad)
# alias generation check
import re
def aliases(sh):
    out={sh}
    for i,ch in enumerate(sh):
        if ch=='m': out|={sh[:i]+a+sh[i+1:] for a in ('min','mi','-')}
        if ch=='M': out|={sh[:i]+a+sh[i+1:] for a in ('maj','ma')}
    return out
bad=0;n=0
for sh in chords.chord_shorthand:
    for al in aliases(sh):
        for r in ('C','Bb','F#'):
            n+=1
            try:
                if chords.from_shorthand(r+al)!=chords.from_shorthand(r+sh): bad+=1; print('ALIAS',r+al,r+sh)
            except Exception as e: bad+=1; print('ALIAS EXC',r+al,repr(e))
print(n,bad)
