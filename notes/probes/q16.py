import random, collections
from fractions import Fraction as Fr
from mingus.containers import *
from mingus.core import chords as CH
st=collections.Counter(); ex={}
SH=['C','Am','Dm','G7','F#m7','Bbdim','E','A7','Ebmaj7']
def gen(rng,depth):
    out=[]
    for _ in range(rng.randint(1,4)):
        r=rng.random()
        if r<0.2: out.append(None)
        elif r<0.45 and depth<3: out.append(gen(rng,depth+1))
        else: out.append(rng.choice(SH))
    return out
def flat(lst,d,acc):
    for c in lst:
        if isinstance(c,list): flat(c,d*2,acc)
        else: acc.append((c,Fr(1,d)))
    return acc
for seed in range(6000):
    rng=random.Random(seed); meter=rng.choice([(4,4),(3,4),(6,8),(2,2),(5,4)]); L=Fr(*meter); d=rng.choice([1,2,4])
    lst=gen(rng,0); items=flat(lst,d,[])
    if any(l>L for _,l in items): st['skip-long']+=1; continue
    t=Track(); t.add_bar(Bar('G',meter))
    try: t.from_chords(lst,d)
    except Exception as e: st['raise '+type(e).__name__]+=1; ex.setdefault('raise',(seed,lst,repr(e))); continue
    got=[(None if n is None else tuple(x.name for x in n), Fr(1)/Fr(v).limit_denominator(10**6)) for _,v,n in t.get_notes()]
    # expected: items in order, possibly split in two consecutive entries with same pitches
    i=0; ok=True
    for c,l in items:
        names=None if c is None else tuple(x.name for x in NoteContainer().from_chord(c))
        if i<len(got) and got[i]==(names,l): i+=1
        elif i+1<len(got) and got[i][0]==names and got[i+1][0]==names and got[i][1]+got[i+1][1]==l: i+=2; st['split']+=1
        else: ok=False; break
    if not ok or i!=len(got): st['mismatch']+=1; ex.setdefault('mm',(seed,meter,d,lst,items[:6],got[:8]))
    elif not t.test_integrity(): st['integrity']+=1
    else: st['ok']+=1
print(st); 
for k,v in ex.items(): print(k,v)
