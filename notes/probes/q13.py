import os, tempfile, random, collections
from smf import parse
from mingus.containers import *
from mingus.midi import midi_file_out as MO
import mingus.core.keys as K, mingus.core.value as V
tmp=tempfile.mkdtemp(); f=os.path.join(tmp,'a.mid')
VALS=[1,2,4,8,16,32,64,128, 16/3.0, 8/3.0, 6.0, 12.0, 24.0, 3.0, 5.0, 10.0, 20.0, 7.0, 14.0, V.dots(4,2), V.dots(8,3), 0.5, 0.25]
def ev_notes(ev): return sorted((e[0],e[2],e[3],e[4],e[5]) for e in ev if e[2] in (8,9))
def timeline(entries, start=0):
    t=start; exp=[]
    for n,v in entries:
        tk=int(round(288.0/v))
        if n:
            for x in n: exp.append((t,9,x.channel,int(x)+12,x.velocity)); exp.append((t+tk,8,x.channel,int(x)+12,x.velocity))
        t+=tk
    return exp,t
def rnd_nc(rng,k=None):
    k=k or rng.randint(1,4); ch=rng.randint(0,15)
    ns=[]
    for _ in range(k):
        x=Note().from_int(rng.randint(0,100)); x.channel=ch; x.velocity=rng.randint(1,127); ns.append(x)
    return NoteContainer(ns)
st=collections.Counter(); ex={}
for seed in range(2000):
    rng=random.Random(seed); rep=rng.randint(0,2); bpm=rng.randint(4,400)
    kind=rng.choice(['note','nc','bar','track'])
    if kind=='note':
        x=rnd_nc(rng,1)[0]; MO.write_Note(f,x,bpm,rep); exp=[]
        for r in range(rep+1): exp+=[(72*r,9,x.channel,int(x)+12,x.velocity),(72*r+72,8,x.channel,int(x)+12,x.velocity)]
        metas={}
    elif kind=='nc':
        nc=rnd_nc(rng); MO.write_NoteContainer(f,nc,bpm,rep); exp=[]
        for r in range(rep+1):
            for x in nc: exp+=[(72*r,9,x.channel,int(x)+12,x.velocity),(72*r+72,8,x.channel,int(x)+12,x.velocity)]
    else:
        key=rng.choice(K.major_keys+K.minor_keys); meter=rng.choice([(4,4),(3,4),(6,8),(12,8),(2,2),(5,4),(7,8)])
        bars=[]; 
        for _ in range(1 if kind=='bar' else rng.randint(1,4)):
            b=Bar(key,meter); ents=[]
            for _ in range(rng.randint(0,7)):
                v=rng.choice(VALS); n=None if rng.random()<0.3 else rnd_nc(rng)
                if b.place_notes(n,v): ents.append((n,v))
            bars.append((b,ents))
        ins=None
        if kind=='bar': MO.write_Bar(f,bars[0][0],bpm,rep)
        else:
            if rng.random()<0.5: ins=MidiInstrument(); ins.instrument_nr=rng.randint(0,127)
            t=Track(ins); t.name='nm'
            for b,_ in bars: t.add_bar(b)
            MO.write_Track(f,t,bpm,rep)
        exp=[]; t0=0; barstarts=[]
        for r in range(rep+1):
            for b,ents in bars:
                barstarts.append(t0); e,t0=timeline(ents,t0); exp+=e
    fmt,ntr,div,trs=parse(open(f,'rb').read())
    if (fmt,ntr,div)!=(1,1,72): st['hdr']+=1
    ev=trs[0]
    if ev_notes(ev)!=sorted(exp): st['notes '+kind]+=1; ex.setdefault('notes '+kind,(seed,sorted(exp)[:6],ev_notes(ev)[:6]))
    tempo=[e for e in ev if e[2]=='meta' and e[3]==0x51]
    if not tempo or tempo[0][0]!=0 or int.from_bytes(tempo[0][4],'big')!=60000000//bpm: st['tempo']+=1
    if kind in('bar','track'):
        ts=[e for e in ev if e[2]=='meta' and e[3]==0x58]; ks=[e for e in ev if e[2]=='meta' and e[3]==0x59]
        if [e[0] for e in ts]!=barstarts or [e[0] for e in ks]!=barstarts: st['metatick '+kind]+=1; ex.setdefault('metatick '+kind,(seed,barstarts,[e[0] for e in ts]))
        sig=K.get_key_signature(key)
        if any(e[4]!=bytes([sig%256,1 if key.islower() else 0]) for e in ks): st['keysig']+=1
        if meter!=(0,0) and any(e[4][:2]!=bytes([meter[0],meter[1].bit_length()-1]) for e in ts): st['timesig']+=1
        if kind=='track' and ins is not None and exp:
            first=min(exp); ch=[e for e in ev if e[2]==9][0][3]
            bs=[e for e in ev if e[2]==11]; pcg=[e for e in ev if e[2]==12]
            okb=all(e[3]==ch and e[4]==0 for e in bs) and all(e[3]==ch and e[4]==ins.instrument_nr for e in pcg) and len(bs)==rep+1==len(pcg)
            if not okb: st['instr']+=1; ex.setdefault('instr',(seed,bs,pcg,ch))
    st['ok']+=1
print(st)
for k,v in ex.items(): print(k,v)
