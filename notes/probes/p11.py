import collections, itertools, math, random
from mingus.containers import Note, NoteContainer, Bar, Track
L='CDEFGAB'
NAT={'C':0,'D':2,'E':4,'F':5,'G':7,'A':9,'B':11}
MAJ=[0,2,4,5,7,9,11]
names=[l+a for l in L for a in ['','#','b','##','bb']]
shs=[a+d for a in ['','#','b','##','bb'] for d in '1234567']
bad=collections.Counter(); ex={}
for n in names:
  for o in (1,4,7):
    for sh in shs:
        size=MAJ[int(sh[-1])-1]+sh.count('#')-sh.count('b')
        if not 0<=size<=11: continue
        x=Note(n,o); v=int(x); x.transpose(sh)
        if int(x)!=v+size or x.name[0]!=L[(L.index(n[0])+int(sh[-1])-1)%7]: bad['up']+=1; ex.setdefault('up',[]).append((n,o,sh,x))
        x.transpose(sh,False)
        if (x.name,x.octave)!=(n,o): bad['updown']+=1; ex.setdefault('ud',[]).append((n,o,sh,x))
        y=Note(n,o); y.transpose(sh,False)
        if int(y)!=v-size or y.name[0]!=L[(L.index(n[0])-int(sh[-1])+1)%7]: bad['down']+=1; ex.setdefault('down',[]).append((n,o,sh,y))
print(bad); 
for k,v in ex.items(): print(k,v[:8])
x=Note('C',0); x.change_octave(-3); print(x); x=Note('C',0); x.octave_down(); print(x)
# containers
nc=NoteContainer(['C','E','G']); nc.transpose('3'); print(nc); nc.augment(); print(nc); nc.diminish(); print(nc)
b=Bar(); b.place_notes(['C','E'],4); b.place_rest(4); b.place_notes('G',2); print(b); b.transpose('5'); print(b); b.augment(); print(b)
t=Track(); t.add_notes(['C','E'],4); t.add_notes(None,4); t.add_notes('G',2); t.transpose('b3',False); print(t.bars); t.augment(); t.diminish(); print(t.bars)
