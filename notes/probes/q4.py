import collections
from mingus.core import value as V, meter as M
bad=collections.Counter(); ex={}
for b in V.base_values:
    for v,exp in [(b,(b,0,1,1)),(V.dots(b),(b,1,1,1))]:
        for i in range(-100,101):
            f=1+i/10000.0
            got=tuple(V.determine(v*f))
            if got!=exp: bad['near']+=1; ex.setdefault('near',[]).append((v,f,got,exp))
    for d in range(0,5):
        if tuple(V.determine(V.dots(b,d)))!=(b,d,1,1): bad['dots']+=1
    for t,r in ((V.triplet,(3,2)),(V.quintuplet,(5,4)),(V.septuplet,(7,4))):
        if tuple(V.determine(t(b)))!=(b,0)+r: bad['tup']+=1
print(dict(bad), ex.get('near',[])[:5])
import math
for d in [0,1,2,3,4,6,8,2**40,4.0,8.0,0.5,0.25,3.5,1.5,-1,-2,-4,-0.5,2.0**0.5,float('inf'),float('nan'),1e308,5e-324,True,12,2.0**1023, 1.0, 2.5, 6.0]:
    exp = (d==d) and d>=1 and d!=float('inf') and float(d).is_integer() and (int(d)&(int(d)-1))==0
    got=M.valid_beat_duration(d)
    if bool(got)!=bool(exp): print("MISMATCH",d,got,exp)
print('meter ok')
