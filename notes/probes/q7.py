import itertools, collections, sys
sys.argv=['x']
from mingus.core import notes, intervals, keys, scales, chords
L='CDEFGAB'; NAT={'C':0,'D':2,'E':4,'F':5,'G':7,'A':9,'B':11}
def pc(n): return (NAT[n[0]]+n.count('#')-n.count('b'))%12
def names(k): return [l+''.join(p) for l in L for j in range(k+1) for p in itertools.product('#b',repeat=j)]
def pure(k): return [l+a for l in L for a in ['']+['#'*i for i in range(1,k+1)]+['b'*i for i in range(1,k+1)]]
cons = {'minor_second':(1,1),'major_second':(1,2),'minor_third':(2,3),'major_third':(2,4),'minor_fourth':(3,4),'major_fourth':(3,5),'perfect_fourth':(3,5),'minor_fifth':(4,6),'major_fifth':(4,7),'perfect_fifth':(4,7),'minor_sixth':(5,8),'major_sixth':(5,9),'minor_seventh':(6,10),'major_seventh':(6,11)}
bad=0
for n in names(9)+pure(40)+['C'+'#'*500,'Fb'+'b'*999]:
    for c,(ls,st) in cons.items():
        r=getattr(intervals,c)(n)
        if not(r[0]==L[(L.index(n[0])+ls)%7] and (pc(r)-pc(n))%12==st and not('#' in r and 'b' in r) and len(r)<=7): bad+=1
print('C02 big bad',bad)
# C05 tonics <=3
PAT={'Ionian':[2,2,1,2,2,2,1],'Dorian':[2,1,2,2,2,1,2],'Phrygian':[1,2,2,2,1,2,2],'Lydian':[2,2,2,1,2,2,1],'Mixolydian':[2,2,1,2,2,1,2],'Aeolian':[2,1,2,2,1,2,2],'Locrian':[1,2,2,1,2,2,2],'WholeTone':[2]*6,'Octatonic':[2,1]*4}
bad=0
for cls,pat in PAT.items():
    for t in pure(4)+names(3):
        for o in (0,1,4):
            a=getattr(scales,cls)(t,o).ascending()
            stp=[(pc(a[i+1])-pc(a[i]))%12 for i in range(len(a)-1)]
            if stp!=pat*o or a[0]!=t or a[-1]!=t: bad+=1; 
            if len(pat)==7 and any(a[i+1][0]!=L[(L.index(a[i][0])+1)%7] for i in range(len(a)-1)): bad+=1
print('C05 big bad',bad)
print(scales.Diatonic('C',(3,7)).ascending(), scales.Diatonic('C',(3,7),2).ascending())
