import random, collections, xml.etree.ElementTree as ET
from fractions import Fraction as Fr
from mingus.containers import *
from mingus.extra import musicxml as MX
import mingus.core.value as V, mingus.core.keys as K
NAMES=[l+a for l in 'CDEFGAB' for a in ['','#','b','##','bb']]
vocab=[]
for b in V.base_values:
    vocab.append((b,Fr(4)/Fr(b),0))
    for d in (1,2,3,4): vocab.append((V.dots(b,d),Fr(4)/Fr(b)*(2-Fr(1,2**d)),d))
    vocab+=[(V.triplet(b),Fr(4)/Fr(b)*Fr(2,3),0),(V.quintuplet(b),Fr(4)/Fr(b)*Fr(4,5),0),(V.septuplet(b),Fr(4)/Fr(b)*Fr(4,7),0)]
st=collections.Counter(); ex={}
for seed in range(3000):
    rng=random.Random(seed); c=Composition(); c.set_title(rng.choice(['T & <i>','plain',"it's \"q\""])); c.set_author(rng.choice(['A&B','','x<y']))
    spec=[]
    for ti in range(rng.randint(1,3)):
        ins=rng.choice([None,MidiInstrument('Vio<lin>'),Piano()]); t=Track(ins); t.name='Tr&%d'%ti; bars=[]
        for bi in range(rng.randint(1,3)):
            key=rng.choice(K.major_keys+K.minor_keys); meter=rng.choice([(4,4),(3,4),(6,8),(0,0)])
            b=Bar(key,meter); ents=[]
            for _ in range(rng.randint(0,6)):
                fv,ql,d=rng.choice(vocab); r=rng.random()
                n=None if r<0.2 else NoteContainer([Note(rng.choice(NAMES),rng.randint(0,8)) for _ in range(1 if r<0.6 else rng.randint(2,5))])
                if b.place_notes(n,fv): ents.append(([(x.name[0],x.name.count('#')-x.name.count('b'),x.octave) for x in n] if n else None, ql, d))
            t.add_bar(b); bars.append((key,meter,ents))
        c.add_track(t); spec.append((t.name,ins,bars))
    try: x=MX.from_Composition(c)
    except Exception as e: st['raise '+type(e).__name__]+=1; ex.setdefault('raise',(seed,repr(e))); continue
    root=ET.fromstring(x)
    ids=[sp.get('id') for sp in root.find('part-list')]; pids=[p.get('id') for p in root.findall('part')]
    if ids!=pids or len(set(ids))!=len(ids) or len(ids)!=len(spec): st['ids']+=1
    if root.findtext('movement-title')!=c.title: st['title']+=1
    for (name,ins,bars),sp,part in zip(spec,root.find('part-list'),root.findall('part')):
        if sp.findtext('part-name')!=name: st['pname']+=1
        ms=part.findall('measure')
        if [m.get('number') for m in ms]!=[str(i+1) for i in range(len(bars))]: st['numbers']+=1
        for (key,meter,ents),m in zip(bars,ms):
            a=m.find('attributes'); D=Fr(a.findtext('divisions'))
            if (int(a.findtext('time/beats')),int(a.findtext('time/beat-type')))!=meter: st['time']+=1
            if int(a.findtext('key/fifths'))!=K.get_key_signature(key) or a.findtext('key/mode')!=('minor' if key.islower() else 'major'): st['key']+=1
            exp=[]
            for ps,ql,d in ents:
                if ps is None: exp.append((None,False,d,ql))
                else:
                    for i,pp in enumerate(ps): exp.append((pp,i>0,d,ql))
            got=[]
            for n in m.findall('note'):
                if n.find('rest') is not None: pp=None
                else: pp=(n.findtext('pitch/step'),int(n.findtext('pitch/alter') or 0),int(n.findtext('pitch/octave')))
                got.append((pp,n.find('chord') is not None,len(n.findall('dot')),Fr(n.findtext('duration'))/D))
            if got!=exp: st['notes']+=1; ex.setdefault('notes',(seed,exp[:3],got[:3]))
    st['runs']+=1
print(st, ex)
