def decode_system(lines, tuning):
    # lines: string lines, highest string first
    assert len(set(map(len,lines)))==1, [len(l) for l in lines]
    n=len(tuning.tuning); assert len(lines)==n
    body=[l[l.index('||')+2:] for l in lines]
    W=len(body[0]); groups=[]; cur=None
    for col in range(W):
        has=any(b[col].isdigit() for b in body)
        if has:
            if cur is None: cur=[col,col]
            else: cur[1]=col
        else:
            if cur is not None and not any(b[col]==' ' for b in body): groups.append(tuple(cur)); cur=None
            elif cur is not None: cur[1]=col
    out=[]
    for a,b in groups:
        ps=[]
        for i,bl in enumerate(body):
            s=bl[a:b+1].replace('-','').strip()
            if s:
                string=n-1-i
                ps.append(int(tuning.tuning[string])+int(s))
        out.append(sorted(ps))
    return out
