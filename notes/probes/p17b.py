import os, tempfile, collections, io, random, sys
import mingus; print(mingus.__file__)
from fractions import Fraction as Fr
from smf import parse
from mingus.containers import *
from mingus.midi import midi_file_out as MO, midi_file_in as MI
import mingus.core.keys as K
tmp=tempfile.mkdtemp(); f=os.path.join(tmp,'a.mid')
VALS=[1,2,4,8,16,32, 16/3.0, 8/3.0, 4/3.0, 6.0, 12.0, 24.0, 3.0]  # integral ticks: 288/v
def ticks(v): return round(288/v)
def gen(rng):
    ntr=rng.randint(1,3); c=Composition(); spec=[]
    for ti in range(ntr):
        key=rng.choice(K.major_keys+K.minor_keys); meter=rng.choice([(4,4),(3,4),(6,8),(2,2),(5,4),(12,8)])
        ins=None
        if rng.random()<0.5: ins=MidiInstrument(); ins.instrument_nr=rng.randint(0,127)
        t=Track(ins); t.name='Trk%d'%ti; t.add_bar(Bar(key,meter)); ch=rng.randint(0,15)
        ents=[]
        for _ in range(rng.randint(1,14)):
            v=rng.choice(VALS)
            r=rng.random()
            if r<0.3: n=None
            else:
                k=rng.randint(1,4) if r>0.6 else 1
                n=NoteContainer([Note(rng.randint(12,100),velocity=rng.randint(1,127),channel=ch) for _ in range(k)])
            if t.bars[-1].is_full(): t.add_bar(Bar(key,meter))
            if t.bars[-1].place_notes(n,v): ents.append((ticks(v), tuple(sorted((int(x),x.channel,x.velocity) for x in n)) if n else ()))
        c.add_track(t); spec.append((t.name, getattr(ins,'instrument_nr',None), key, meter, ents))
    return c,spec
def merge(seq):
    out=[]
    for tk,ps in seq:
        if ps==() and out and out[-1][1]==(): out[-1]=(out[-1][0]+tk,())
        else: out.append((tk,ps))
    while out and out[-1][1]==(): out.pop()
    return out
def readback(c2):
    res=[]
    for t in c2.tracks:
        seq=[]
        for bar in t.bars:
            for beat,val,nc in bar.bar:
                seq.append((round(288/val), tuple(sorted((int(x),x.channel,x.velocity) for x in nc)) if nc else ()))
        res.append((t.name, getattr(t.instrument,'instrument_nr',None), [(b.key.key,b.meter) for b in t.bars], seq))
    return res
st=collections.Counter(); ex={}
for seed in range(3000):
    rng=random.Random(seed); c,spec=gen(rng)
    MO.write_Composition(f,c,rng.randint(40,300))
    # C16 decode check
    fmt,ntr,div,trs=parse(open(f,'rb').read())
    for (name,inr,key,meter,ents),ev in zip(spec,trs):
        t=0; exp=[]
        for tk,ps in ents:
            for p,chn,vel in ps: exp.append((t,9,chn,p+12,vel)); 
            for p,chn,vel in ps: exp.append((t+tk,8,chn,p+12,vel))
            t+=tk
        got=[(e[0],e[2],e[3],e[4],e[5]) for e in ev if e[2] in (8,9)]
        if sorted(got)!=sorted(exp): st['c16-notes']+=1; ex.setdefault('c16-notes',(seed,name,exp[:6],got[:6]))
        ks=[e for e in ev if e[2]=='meta' and e[3]==0x59]
        sig=K.get_key_signature(key)
        if any(k[4]!=bytes([sig%256, 1 if key.islower() else 0]) for k in ks): st['c16-key']+=1
    try: c2,b2=MI.MIDI_to_Composition(f)
    except Exception as e: st['raise '+type(e).__name__]+=1; ex.setdefault('raise '+type(e).__name__,(seed,repr(e))); continue
    rb=readback(c2)
    if len(rb)!=len(spec): st['ntracks']+=1; continue
    for (name,inr,key,meter,ents),(n2,i2,km,seq) in zip(spec,rb):
        if name!=n2: st['name']+=1
        if inr!=i2: st['instr']+=1; ex.setdefault('instr',(seed,inr,i2))
        if merge(ents)!=merge(seq): st['seq']+=1; ex.setdefault('seq',(seed,merge(ents),merge(seq),meter))
        if any(k!=(key,meter) for k in km): st['keymeter']+=1; ex.setdefault('km',(seed,key,meter,km))
    st['ok-runs']+=1
print(st)
for k,v in ex.items(): print(k,v)
