import random, collections, os, itertools
from mingus.containers import *
from mingus.extra import tunings as T, tablature as TAB
from mingus.core import intervals as I
from p20c_dec import decode_system
tun=[t for k in T._known for t in T._known[k][1].values() if not any(isinstance(s,list) for s in t.tuning)]
st=collections.Counter(); ex={}
for seed in range(3000):
    rng=random.Random(seed); t=rng.choice(tun); opens=sorted(int(x) for x in t.tuning); w=rng.choice([80,40,20,10,rng.randint(5,200)])
    n=Note().from_int(rng.randint(max(0,opens[0]-3),opens[-1]+27))
    try:
        txt=TAB.from_Note(n,w,t); got=decode_system(txt.split(os.linesep),t)
        if got!=[[int(n)]]: st['note mm']+=1; ex.setdefault('note',(seed,n,w,txt))
        else: st['note ok']+=1
    except AssertionError: st['note unequal']+=1; ex.setdefault('nu',(seed,n,w,txt))
    except Exception as e:
        playable=any(0<=int(n)-o<=24 for o in opens)
        st['note raise %s playable=%s'%(type(e).__name__,playable)]+=1
    nc=NoteContainer([Note().from_int(rng.randint(opens[0],opens[-1]+12)) for _ in range(rng.randint(1,min(4,len(opens))))])
    try:
        txt=TAB.from_NoteContainer(nc,w,t); got=decode_system(txt.split(os.linesep),t)
        if got!=[sorted(int(x) for x in nc)]: st['nc mm']+=1; ex.setdefault('nc',(seed,nc,w,txt))
        else: st['nc ok']+=1
    except AssertionError: st['nc unequal']+=1
    except Exception as e:
        st['nc raise %s fing=%s'%(type(e).__name__, t.find_fingering(nc.notes)!=[])]+=1
print(st)
for k,v in ex.items(): print(k,v[:-1]); print(v[-1])
# C12 predicates
NAMES=['C','C#','Db','D','E','Fb','F','G','A','Bb','B','Cb']
bad=0
for seed in range(5000):
    rng=random.Random(seed); nc=NoteContainer([Note(rng.choice(NAMES),rng.randint(3,5)) for _ in range(rng.randint(0,5))])
    ns=[x.name for x in nc.notes]; pairs=list(itertools.combinations(ns,2))
    for f,g,args in [(nc.is_consonant,I.is_consonant,(True,)),(nc.is_consonant,I.is_consonant,(False,)),(nc.is_perfect_consonant,I.is_perfect_consonant,(True,)),(nc.is_perfect_consonant,I.is_perfect_consonant,(False,)),(nc.is_imperfect_consonant,I.is_imperfect_consonant,())]:
        if f(*args)!=all(g(a,b,*args) for a,b in pairs): bad+=1
    for x in (True,False):
        if nc.is_dissonant(x)!=(not nc.is_consonant(not x)): bad+=1
print('C12 pred bad',bad)
