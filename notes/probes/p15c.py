import copy, inspect, collections
from mingus.core import notes, intervals, keys, scales, chords, progressions, value, meter
def poison(x):
    if isinstance(x,list):
        for e in x: poison(e)
        x.append('POISON'); 
        if len(x)>1: x[0]='POISON0'
    elif isinstance(x,dict):
        x['POISON']=1
calls=[]
for f,args in [
 (keys.get_notes,('C',)),(keys.get_notes,('eb',)),(keys.get_key_signature_accidentals,('A',)),(keys.get_key,(2,)),
 (chords.triads,('C',)),(chords.sevenths,('G',)),(chords.tonic,('C',)),(chords.tonic7,('D',)),(chords.V7,('F',)),(chords.triad,('E','C')),(chords.seventh,('E','C')),
 (chords.major_triad,('C',)),(chords.from_shorthand,('Am7',)),(chords.from_shorthand,('Dm|G',)),(chords.from_shorthand,(['C','Am'],)),(chords.determine,(['C','E','G'],)),(chords.determine,(['C','E','G','B'],True)),(chords.determine,(['C'],)),
 (chords.invert,(['C','E','G'],)),(chords.first_inversion,(['C','E','G'],)),
 (progressions.to_chords,(['I','V7'],'C')),(progressions.to_chords,('I','Bb')),(progressions.to_chords,('bII','C')),(progressions.determine,(['C','E','G'],'C')),(progressions.determine,([['C','E','G'],['G','B','D']],'C',True)),
 (progressions.substitute,(['I','IV','V','I'],0)),(progressions.substitute,(['I','IV','V','I'],0,1)),(progressions.substitute,(['I','IV','V','I'],1,2)),(progressions.substitute_harmonic,(['I','IV'],0)),(progressions.substitute_minor_for_major,(['VI'],0)),
 (progressions.substitute_major_for_minor,(['I'],0)),(progressions.substitute_diminished_for_diminished,(['VII'],0)),(progressions.substitute_diminished_for_dominant,(['VII'],0)),(progressions.parse_string,('bIM7',)),
 (intervals.invert,(['C','E'],)),(intervals.determine,('C','E')),(intervals.from_shorthand,('C','b3')),(intervals.interval,('C','D',1)),
 (scales.determine,(['C','D','E'],)),(lambda: scales.Major('C').ascending(),()),(lambda: scales.Chromatic('C').descending(),()),(lambda: scales.MelodicMinor('A',2).descending(),()),
 (value.determine,(12,)),
]:
    a0=copy.deepcopy(args)
    try: r1=f(*args)
    except Exception as e: print('EXC',f,args,repr(e)); continue
    mut = args!=a0
    snap=copy.deepcopy(r1)
    alias = any(r1 is a for a in args if isinstance(a,(list,dict)))
    if not alias: poison(r1)
    r2=f(*copy.deepcopy(a0))
    changed = r2!=snap
    if mut or changed: print(getattr(f,'__name__',f), a0, 'ARG-MUTATED' if mut else '', 'RESULT-POISONED-LATER-CALL' if changed else '', 'alias-arg' if alias else '')
print('done')
