import collections, signal
from mingus.core import value as V, meter as M
bad=collections.Counter(); ex={}
for b in V.base_values:
    cases=[(b,(b,0,1,1))]
    for d in range(1,5): cases.append((V.dots(b,d),(b,d,1,1)))
    cases+= [(V.triplet(b),(b,0,3,2)),(V.quintuplet(b),(b,0,5,4)),(V.septuplet(b),(b,0,7,4))]
    for v,exp in cases:
        got=V.determine(v)
        if tuple(got)!=exp: bad['exact']+=1; ex.setdefault('exact',[]).append((v,exp,got))
    for v,exp in cases[:2]:
        for f in (0.99,0.995,1.005,1.01):
            got=V.determine(v*f)
            if tuple(got)!=exp: bad['near %s'%f]+=1; ex.setdefault('near %s'%f,[]).append((v*f,exp,got))
print(bad)
for k,v in ex.items(): print(k,v[:6])
print(V.determine(3.96), V.determine(0.2475), V.determine(129), V.determine(200))
# meter
class TO(Exception): pass
def h(*a): raise TO()
signal.signal(signal.SIGALRM,h)
for d in [0,1,2,3,4,6,8,16,128,256,1024,2**40,4.0,8.0,0.5,0.25,3.5,1.5,-1,-2,-4,-0.5,2.0**0.5,float('inf'),float('nan'),1e308, 5e-324, True, 3, 12]:
    signal.setitimer(signal.ITIMER_REAL,0.5)
    try: r=M.valid_beat_duration(d)
    except TO: r='TIMEOUT'
    except Exception as e: r=repr(e)
    signal.setitimer(signal.ITIMER_REAL,0)
    print(d, r)
print(M.is_valid((0,4)),M.is_valid((-1,4)),M.is_compound((3,8)),M.is_compound((6,8)),M.is_compound((9,3)),M.is_asymmetrical((5,8)),M.is_asymmetrical((4,4)), M.is_valid((4.5,4)), M.is_asymmetrical((4.5,4)))
print(V.add(8,4),V.subtract(V.add(8,4),4), 1/V.add(8,4), 1/8+1/4)
