import itertools, random, collections
from mingus.core import notes, intervals, keys, scales
L='CDEFGAB'; NAT={'C':0,'D':2,'E':4,'F':5,'G':7,'A':9,'B':11}; FIF='FCGDAEB'
def pc(n): return (NAT[n[0]]+n.count('#')-n.count('b'))%12
def names(k): return [l+''.join(p) for l in L for j in range(k+1) for p in itertools.product('#b',repeat=j)]
# independent key model
def major_key(sig):
    # tonic: sig fifths from C
    li=FIF.index('C')+sig  # index in extended fifths line ... Fb Cb Gb Db Ab Eb Bb F C G D A E B F# C# ...
    def name(i):
        l=FIF[i%7]; a=i//7
        return l+('#'*a if a>0 else 'b'*(-a))
    tonic=name(li)
    altered=set(FIF[:sig]) if sig>0 else set(FIF[::-1][:-sig]) if sig<0 else set()
    start=L.index(tonic[0])
    ns=[]
    for j in range(7):
        l=L[(start+j)%7]; ns.append(l+('#' if sig>0 else 'b') if l in altered else l)
    return tonic,ns
model={}
for sig in range(-7,8):
    t,ns=major_key(sig); model[t]=ns; m=ns[5:]+ns[:5]; model[m[0][0].lower()+m[0][1:]]=m
bad=0
for k in keys.major_keys+keys.minor_keys:
    if keys.get_notes(k)!=model.get(k): bad+=1; print(k,keys.get_notes(k),model.get(k))
print('C04 model bad',bad, sorted(model)==sorted(keys.major_keys+keys.minor_keys))
bad=0;n=0
fns=[intervals.second,intervals.third,intervals.fourth,intervals.fifth,intervals.sixth,intervals.seventh]
for k,ns in model.items():
    for nm in names(2):
        for st,f in enumerate(fns,1):
            n+=1
            exp=[x for x in ns if x[0]==L[(L.index(nm[0])+st)%7]][0]
            if f(nm,k)!=exp: bad+=1
print('C04 steps',n,bad)
# C05 recognition spec
PAT={'major':[2,2,1,2,2,2,1],'harmonic major':[2,2,1,2,1,3,1],'natural minor':[2,1,2,2,1,2,2],'harmonic minor':[2,1,2,2,1,3,1],'melodic minor':[2,1,2,2,2,2,1],'Bachian':[2,1,2,2,2,2,1],'minor Neapolitan':[1,2,2,2,1,3,1]}
def spell(tonic,pat):
    out=[tonic]
    for s in pat[:-1]:
        prev=out[-1]; l=L[(L.index(prev[0])+1)%7]; a=(pc(prev)+s-NAT[l])%12
        a=a-12 if a>6 else a
        out.append(l+('#'*a if a>0 else 'b'*(-a)))
    return out
SC=[]
for sig in range(-7,8):
    t,ns=major_key(sig); mt=ns[5]
    for nm in ('major','harmonic major'): SC.append((t+' '+nm,set(spell(t,PAT[nm])),set(spell(t,PAT[nm]))))
    for nm in ('natural minor','harmonic minor','melodic minor','Bachian','minor Neapolitan'):
        asc=set(spell(mt,PAT[nm]))
        if nm=='melodic minor': desc=set(spell(mt,PAT['natural minor']))
        elif nm=='minor Neapolitan':
            d=spell(mt,PAT['natural minor']); d[1]=notes.diminish(d[1]) if False else (d[1][:-1] if d[1].endswith('#') else d[1]+'b'); desc=set(d)
        else: desc=asc
        SC.append((mt+' '+nm,asc,desc))
rng=random.Random(5); bad=0; N21=[l+a for l in L for a in ['','#','b']]
tests=[]
for nm,a,d in SC:
    for _ in range(6):
        src=sorted(rng.choice([a,d])); tests.append(rng.sample(src,rng.randint(1,len(src))))
for _ in range(600): tests.append([rng.choice(N21) for _ in range(rng.randint(1,8))])
tests.append([])
for t in tests:
    exp=sorted(nm for nm,a,d in SC if set(t)<=a or set(t)<=d)
    got=sorted(scales.determine(t))
    if exp!=got: bad+=1; print(t,set(exp)^set(got)) if bad<5 else 0
print('C05 recog',len(tests),bad)
