import itertools
from mingus.core import notes, intervals, keys, scales
L='CDEFGAB'
NAT={'C':0,'D':2,'E':4,'F':5,'G':7,'A':9,'B':11}
def pc(n): return (NAT[n[0]]+n.count('#')-n.count('b'))%12
PAT={'Ionian':[2,2,1,2,2,2,1],'Dorian':[2,1,2,2,2,1,2],'Phrygian':[1,2,2,2,1,2,2],'Lydian':[2,2,2,1,2,2,1],'Mixolydian':[2,2,1,2,2,1,2],'Aeolian':[2,1,2,2,1,2,2],'Locrian':[1,2,2,1,2,2,2],
 'Major':[2,2,1,2,2,2,1],'HarmonicMajor':[2,2,1,2,1,3,1],'NaturalMinor':[2,1,2,2,1,2,2],'HarmonicMinor':[2,1,2,2,1,3,1],'MelodicMinor':[2,1,2,2,2,2,1],'Bachian':[2,1,2,2,2,2,1],'MinorNeapolitan':[1,2,2,2,1,3,1],
 'WholeTone':[2]*6,'Octatonic':[2,1]*4,'Chromatic':[1]*12}
names=[l+a for l in L for a in ['','#','b','##','bb']]
bad=0
for cls,pat in PAT.items():
    C=getattr(scales,cls)
    if cls=='Major': ton=keys.major_keys
    elif cls in('HarmonicMajor',): ton=keys.major_keys
    elif cls in ('NaturalMinor','HarmonicMinor','MelodicMinor','Bachian','MinorNeapolitan'): ton=[k[0].upper()+k[1:] for k in keys.minor_keys]
    elif cls=='Chromatic': ton=keys.major_keys+keys.minor_keys
    else: ton=names
    for t in ton:
      for o in (1,2,3):
        try:
            s=C(t,o); a=s.ascending(); d=s.descending()
        except Exception as e:
            print(cls,t,o,type(e).__name__,e); bad+=1; continue
        st=[(pc(a[i+1])-pc(a[i]))%12 for i in range(len(a)-1)]
        if st!=pat*o: print("PAT",cls,t,o,a,st); bad+=1
        if len(pat)==7:
            if any(a[i+1][0]!=L[(L.index(a[i][0])+1)%7] for i in range(len(a)-1)): print("LET",cls,t,a); bad+=1
        if cls not in('MelodicMinor','MinorNeapolitan','Chromatic') and d!=a[::-1]: print("DESC",cls,t,a,d);bad+=1
        if cls=='Chromatic' and [pc(x) for x in d]!=[pc(x) for x in a[::-1]]: print("DESCpc",cls,t,a,d);bad+=1
        if cls=='MelodicMinor':
            nm=scales.NaturalMinor(t,o).descending()
            if d!=nm: print("MM desc",t,d,nm); bad+=1
        if o==1 and t in ('A','C'):
            print(cls,t,a,d)
        for n in range(1,len(a)):
            if s.degree(n)!=a[n-1]: print("DEG",cls,t,n); bad+=1
        try:
            s.degree(1,'d')
        except Exception as e:
            if cls=='Major' and t=='C' and o==1: print("degree d:",type(e).__name__,e)
print("bad",bad)
print(scales.determine(['A','Bb','E','F#','G']))
print(scales.determine(['C','D','E']))
print([c.__name__ for c in scales._Scale.__subclasses__()])
try: scales.Major('c')
except Exception as e: print(type(e).__name__)
try: print(scales.Major('D#').ascending())
except Exception as e: print(type(e).__name__, e)
print(scales.Major('C',0).ascending(), len(scales.Major('C',2)), scales.Major('C')==scales.Ionian('C'), scales.Major('C')!=scales.Ionian('C'))
