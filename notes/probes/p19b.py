import random, collections, re
from fractions import Fraction as Fr
from mingus.containers import *
from mingus.extra import lilypond as LP
import mingus.core.value as V, mingus.core.keys as K
TOK=re.compile(r'\\[a-zA-Z]+|[{}<>]|\d+/\d+|[a-g](?:is|es)*[\',]*|r|\d+|\.+|"[^"]*"|=|\S')
def parse_pitch(tok):
    m=re.fullmatch(r"([a-g])((?:is|es)*)([',]*)",tok); assert m,tok
    acc=m.group(2); name=m.group(1).upper()+'#'*acc.count('is')+'b'*acc.count('es')
    return name, 3+m.group(3).count("'")-m.group(3).count(",")
def decode_bar(s):
    """returns dict(time,key,entries=[(pitches|None, base, dots, ratio)])"""
    toks=TOK.findall(s); i=0; out={'time':None,'key':None,'entries':[]}; ratio=(1,1); depth=0; stack=[]
    assert toks[0]=='{' and toks[-1]=='}'
    toks=toks[1:-1]
    def dur(i):
        base=None; dots=0
        if i<len(toks) and toks[i] in ('\\longa','\\breve'): base={'\\longa':Fr(1,4),'\\breve':Fr(1,2)}[toks[i]]; i+=1
        elif i<len(toks) and toks[i].isdigit(): base=Fr(int(toks[i])); i+=1
        if i<len(toks) and set(toks[i])=={'.'}: dots=len(toks[i]); i+=1
        return base,dots,i
    while i<len(toks):
        t=toks[i]
        if t=='\\time': n,d=toks[i+1].split('/'); out['time']=(int(n),int(d)); i+=2
        elif t=='\\key':
            nm,_=parse_pitch(toks[i+1]); mode=toks[i+2][1:]; out['key']=(nm,mode); i+=3
        elif t=='\\times':
            n,d=toks[i+1].split('/'); assert toks[i+2]=='{'; stack.append(ratio); ratio=(int(d),int(n)); i+=3
        elif t=='}': ratio=stack.pop(); i+=1
        elif t=='<':
            j=toks.index('>',i); ps=[parse_pitch(x) for x in toks[i+1:j]]; base,dots,i=dur(j+1); out['entries'].append((ps,base,dots,ratio))
        elif t=='r': base,dots,i=dur(i+1); out['entries'].append((None,base,dots,ratio))
        else:
            p=parse_pitch(t); base,dots,i=dur(i+1); out['entries'].append(([p],base,dots,ratio))
    assert not stack
    return out
NAMES=[l+a for l in 'CDEFGAB' for a in ['','#','b','##','bb']]
vocab=[]
for b in V.base_values:
    vocab.append((b,(Fr(b),0,(1,1))))
    for d in (1,2,3,4): vocab.append((V.dots(b,d),(Fr(b),d,(1,1))))
    vocab+= [(V.triplet(b),(Fr(b),0,(3,2))),(V.quintuplet(b),(Fr(b),0,(5,4))),(V.septuplet(b),(Fr(b),0,(7,4)))]
st=collections.Counter(); ex={}
for seed in range(5000):
    rng=random.Random(seed); key=rng.choice(K.major_keys+K.minor_keys); meter=rng.choice([(4,4),(3,4),(6,8),(0,0),(12,8),(2,2)])
    b=Bar(key,meter); exp=[]
    for _ in range(rng.randint(0,8)):
        fv,(base,dots,ratio)=rng.choice(vocab)
        r=rng.random()
        if r<0.2: n=None; e=None
        else:
            k=1 if r<0.6 else rng.randint(2,5)
            n=NoteContainer([Note(rng.choice(NAMES),rng.randint(0,8)) for _ in range(k)])
            e=[(x.name,x.octave) for x in n]
        if b.place_notes(n,fv): exp.append((e,base,dots,ratio))
    sk,stm=rng.random()<0.7,rng.random()<0.7
    s=LP.from_Bar(b,sk,stm)
    try: d=decode_bar(s)
    except Exception as e_: st['decode-fail']+=1; ex.setdefault('df',(seed,s,repr(e_))); continue
    if d['entries']!=exp: st['entries']+=1; ex.setdefault('ent',(seed,s,exp,d['entries']))
    if sk and d['key']!=(key[0].upper()+key[1:], 'minor' if key[0].islower() else 'major'): st['key']+=1; ex.setdefault('key',(seed,s,key))
    if (not sk) and d['key'] is not None: st['key-shown']+=1
    if stm and d['time']!=meter: st['time']+=1
    st['runs']+=1
print(st)
for k,v in ex.items(): print(k,v)
