import time, collections
from mingus.extra import tunings as T
from mingus.containers import NoteContainer
import mingus.core.chords as CH
allt=[(k,d,t) for k in T._known for d,t in T._known[k][1].items()]
nc=[(k,d,t) for k,d,t in allt if not any(isinstance(s,list) for s in t.tuning)]
print(len(nc), collections.Counter(k for k,_,_ in nc).most_common(12))
print([ (k,d,len(t.tuning)) for k,d,t in nc if 'GUITAR' in k][:20])
g=[t for k,d,t in nc if 'GUITAR' in k or k in('BANJO','UKULELE','MANDOLIN')]
t0=time.time(); n=0; st=collections.Counter()
for t in g[:8]:
    for sh in ['','m','7','M7','m7','dim','aug','sus4','9','m11','6/9','13','5','dim7','m7b5','7b9']:
        for r in ['C','E','A','F#','Bb','G','D','B','Eb','Ab','Db','F']:
            try:
                fs=t.find_chord_fingering(NoteContainer().from_chord(r+sh)); n+=1; st[len(fs)>0]+=1
            except Exception as e: st['raise '+type(e).__name__+str(e)[:40]]+=1
print(n, time.time()-t0, st)
# get_tuning soundness
import itertools
bad=0; cnt=0
insts=set(k for k,_,_ in allt)
for k,d,t in allt:
    for pi in (k[:1],k[:3],k,k.lower()):
        for pd in ('',d[:2],d):
            for ns in (None,t.count_strings(),3):
                for ncs in (None,t.count_courses(),1):
                    r=T.get_tuning(pi,pd,ns,ncs); cnt+=1
                    if r is not None:
                        ok=r.instrument.upper().startswith(pi.upper()) and r.description.upper().startswith(pd.upper()) and (ns is None or r.count_strings()==ns) and (ncs is None or r.count_courses()==ncs)
                        if not ok: bad+=1
                    for r in T.get_tunings(pi,ns,ncs):
                        ok=r.instrument.upper().startswith(pi.upper()) and (ns is None or r.count_strings()==ns) and (ncs is None or r.count_courses()==ncs)
                        if not ok: bad+=1
print(cnt,bad)
