import itertools, collections
from mingus.core import notes, intervals
from mingus.containers import Note
L='CDEFGAB'; NAT={'C':0,'D':2,'E':4,'F':5,'G':7,'A':9,'B':11}; MAJ=[0,2,4,5,7,9,11]
def pc(n): return (NAT[n[0]]+n.count('#')-n.count('b'))%12
def pure(k): return [l+a for l in L for a in ['']+['#'*i for i in range(1,k+1)]+['b'*i for i in range(1,k+1)]]
for kn,ks in [(2,2),(3,2),(2,3),(3,3),(4,3),(4,4),(6,2)]:
    names=pure(kn); shs=[a+d for a in ['']+['#'*i for i in range(1,ks+1)]+['b'*i for i in range(1,ks+1)] for d in '1234567']
    bad=collections.Counter(); ex={}
    for n in names:
        for sh in shs:
            size=MAJ[int(sh[-1])-1]+sh.count('#')-sh.count('b')
            up=intervals.from_shorthand(n,sh,True); dn=intervals.from_shorthand(n,sh,False)
            if not(up[0]==L[(L.index(n[0])+int(sh[-1])-1)%7] and (pc(up)-pc(n))%12==size%12): bad['up']+=1
            if not(dn[0]==L[(L.index(n[0])-int(sh[-1])+1)%7] and (pc(n)-pc(dn))%12==size%12): bad['dn']+=1
            if intervals.from_shorthand(up,sh,False)!=n: bad['rt']+=1; ex.setdefault('rt',(n,sh,up,intervals.from_shorthand(up,sh,False)))
            if 0<=size<=11:
                for o in (0,4):
                    x=Note(n,o); v=int(x); x.transpose(sh)
                    if int(x)!=v+size: bad['tr-up']+=1; ex.setdefault('tr',(n,o,sh,x))
                    x.transpose(sh,False)
                    if (x.name,x.octave)!=(n,o): bad['tr-rt']+=1
    print(kn,ks,dict(bad),ex)
