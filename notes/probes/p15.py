import importlib, random
from mingus.extra import fft
c=fft._log_cache
print(len(c), c[126],c[127],c[128])
def cold(f):
    fft._last_asked=None
    return fft._find_log_index(f)
seq=[c[127], 13000.0, 14000.0]
fft._last_asked=None
for f in seq:
    try: print(f, fft._find_log_index(f), 'cold', end=' ')
    except Exception as e: print(f,'RAISE',repr(e), end=' ')
    sv=fft._last_asked; print(cold(f)); fft._last_asked=sv
# random histories vs cold
rng=random.Random(1); bad=[]
for trial in range(20000):
    fft._last_asked=None
    hist=[rng.choice([rng.uniform(1,14000), rng.choice(c), rng.choice(c)*1.0000001, rng.choice(c)*0.9999999]) for _ in range(rng.randint(1,6))]
    try:
        warm=[fft._find_log_index(f) for f in hist]
    except Exception as e:
        bad.append((hist,repr(e))); continue
    cd=[cold(f) for f in hist]
    if warm!=cd: bad.append((hist,warm,cd))
print(len(bad)); print(bad[:3])
