import random, collections
from fractions import Fraction as Fr
from mingus.containers import *
from mingus.midi.sequencer import Sequencer
from mingus.midi.sequencer_observer import SequencerObserver
class Rec(Sequencer):
    def init(self): self.ev=[]
    def play_event(self,n,c,v): self.ev.append(('on',n,c,v))
    def stop_event(self,n,c): self.ev.append(('off',n,c))
    def sleep(self,s): self.ev.append(('sleep',s))
    def instr_event(self,c,i,b): self.ev.append(('instr',c,i,b))
VALS=[(1,Fr(1)),(2,Fr(1,2)),(4,Fr(1,4)),(8,Fr(1,8)),(16,Fr(1,16)),(8/3.0*1.0,Fr(3,8)),(16/3.0,Fr(3,16))]
def rhythm(rng,L):
    out=[];rem=L
    while rem>0:
        c=[v for v in VALS if v[1]<=rem]; v=rng.choice(c); out.append(v); rem-=v[1]
    return out
def drift(rh,L):
    t=0.0
    for fv,_ in rh: t+=1.0/fv
    return t<float(L)
st=collections.Counter(); ex={}
for seed in range(3000):
    rng=random.Random(seed); ntr=rng.randint(1,4); nb=rng.randint(1,3); meter=rng.choice([(4,4),(3,4),(6,8)]); L=Fr(*meter)
    rhs=[rhythm(rng,L) for _ in range(nb)]
    if any(drift(r,L) for r in rhs): st['skip-drift']+=1; continue
    tracks=[]; exp=[]  # exp intervals (key,chan,vel,start,end) in whole-notes
    for ti in range(ntr):
        t=Track(); 
        pos=Fr(0)
        for bi in range(nb):
            b=Bar('C',meter)
            for fv,ev in rhs[bi]:
                if rng.random()<0.25: b.place_rest(fv)
                else:
                    ns=[Note().from_int(rng.randint(20,90)) for _ in range(rng.randint(1,3))]
                    for x in ns: x.channel=ti+1; x.velocity=rng.randint(1,127)
                    nc=NoteContainer(ns); b.place_notes(nc,fv)
                    for x in nc: exp.append((int(x)+12,x.channel,x.velocity,pos,pos+ev))
                pos+=ev
            t.add_bar(b)
        tracks.append(t)
    s=Rec(); bpm=rng.choice([60,120,90,133])
    r=s.play_Tracks(tracks,[ti+1 for ti in range(ntr)],bpm)
    # decode
    T=0.0; on={}; got=[]
    for e in s.ev:
        if e[0]=='sleep': T+=e[1]
        elif e[0]=='on': 
            k=(e[1],e[2]); 
            if k in on: st['retrigger']+=1
            on[k]=(T,e[3])
        elif e[0]=='off':
            k=(e[1],e[2])
            if k not in on: st['stop-unstarted']+=1
            else: t0,v=on.pop(k); got.append((k[0],k[1],v,t0,T))
    if on: st['hanging']+=1
    sc=240.0/bpm
    e2=sorted((k,c,v,round(float(a)*sc,6),round(float(b)*sc,6)) for k,c,v,a,b in exp)
    g2=sorted((k,c,v,round(a,6),round(b,6)) for k,c,v,a,b in got)
    if e2!=g2: st['mismatch']+=1; ex.setdefault('mm',(seed,e2[:4],g2[:4]))
    elif abs(T-float(L)*nb*sc)>1e-6: st['total']+=1
    else: st['ok']+=1
print(st, ex)
