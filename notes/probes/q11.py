import random, collections, os
from mingus.containers import *
from mingus.extra import tunings as T, tablature as TAB
from p20c_dec import decode_system
g=TAB.default_tuning
def mkbar(rng,t):
    opens=sorted(int(x) for x in t.tuning); b=Bar('C',(4,4)); exp=[]
    for _ in range(rng.randint(1,4)):
        v=rng.choice([1,2,4,4])
        if rng.random()<0.2: b.place_rest(v); continue
        nc=NoteContainer([Note(rng.randint(opens[0],opens[-1]+10)) for _ in range(rng.randint(1,3))])
        if not t.find_fingering(nc.notes): continue
        if b.place_notes(nc,v): exp.append(sorted(int(x) for x in nc))
    return b,exp
def blocks(txt):
    out=[];cur=[]
    for l in txt.split(os.linesep):
        if '||' in l and l.strip()!='||' and not l.lstrip().startswith('*') and not l.lstrip().startswith('||'): cur.append(l)
        elif l.lstrip().startswith('*') or l.lstrip().startswith('||*') : 
            if cur: out.append(cur); cur=[]
        else:
            if cur: out.append(cur); cur=[]
    if cur: out.append(cur)
    return out
st=collections.Counter(); ex={}
for seed in range(800):
    rng=random.Random(seed); c=Composition(); c.set_title('t'); exp=[]
    ntr=rng.randint(1,3); nb=rng.randint(1,5)
    for ti in range(ntr):
        tr=Track(); e=[]
        for _ in range(nb):
            while True:
                b,x=mkbar(rng,g)
                if len(b): break
            tr.add_bar(b); e.append(x)
        c.add_track(tr); exp.append(e)
    for w in (80,60,120,rng.randint(40,200)):
        try: txt=TAB.from_Composition(c,w)
        except Exception as e_: st['raise '+type(e_).__name__]+=1; ex.setdefault('raise',(seed,w,repr(e_))); continue
        bl=blocks(txt)
        got=[[] for _ in range(ntr)]
        try:
            for i,blk in enumerate(bl): got[i%ntr]+=decode_system(blk,g)
        except AssertionError as e_: st['unequal']+=1; ex.setdefault('unequal',(seed,w,txt)); continue
        flat=[[p for bar in e for p in bar] for e in exp]
        if got!=flat: st['mismatch']+=1; ex.setdefault('mm',(seed,w,ntr,nb,flat,got,txt))
        else: st['ok']+=1
print(st)
for k,v in ex.items(): print(k,v[:-1]); print(v[-1])
