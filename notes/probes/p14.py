import collections, itertools
from mingus.containers import Note, NoteContainer, Bar, Track, Composition, Suite, Instrument, Piano, Guitar, MidiInstrument
from mingus.containers.mt_exceptions import *
import mingus.core.value as V
for ins in (None, Instrument(), Piano(), Guitar(), MidiInstrument()):
    t=Track(ins)
    for what in ['C', Note('C',4), NoteContainer(['C','E']), ['C','E'], None, Note('C',9), 'C-9', Note('E',3)]:
        try: r=t.add_notes(what,4)
        except Exception as e: r=type(e).__name__+': '+str(e)[:50]
        print(type(ins).__name__, repr(what), r)
# reject semantics
t=Track(); t.add_bar(Bar('G',(2,4))); print(t.add_notes('C',2), t.add_notes('C',1), len(t), t.bars, t.bars[-1].key.key, t.bars[-1].meter)
t=Track(); t.add_bar(Bar('G',(3,4))); print(t.add_notes('C',2), t.add_notes('C',2), len(t), t.bars, t.add_notes('D',4), t.add_notes('E',4), t.bars[-1].key.key)
# from_chords
t=Track().from_chords(['C',['Am','Dm'],'G7','C#'],1); print(len(t), [ (d,n) for _,d,n in t.get_notes()])
t=Track().from_chords(['C',None,'Am',None],2); print(len(t), [ (d,n) for _,d,n in t.get_notes()])
try:
    t=Track().from_chords(['C',['Am',None]],1); print([ (d,n) for _,d,n in t.get_notes()])
except Exception as e: print('nested None', repr(e))
t=Track(); t.add_bar(Bar('C',(3,4))); t.from_chords(['C','G'],2); print(len(t), [(b,d,n) for b,d,n in t.get_notes()], t.test_integrity())
t=Track(); t.add_bar(Bar('C',(3,4))); t.from_chords(['C',None,'G'],2); print(len(t), [(b,d,n) for b,d,n in t.get_notes()], t.test_integrity())
# composition
c=Composition(); t1=Track(); t2=Track(); c.add_track(t1); c+t2; c.add_note('C'); c+ 'E'; print(c.selected_tracks, t1.bars, t2.bars, len(c), c[1] is t2)
c.selected_tracks=[0,1]; c.add_note(Note('G')); print(t1.bars,t2.bars)
print(Composition()==Composition(), Track()==Track(), c==c)
s1=Suite(); s2=Suite(); s1.add_composition(c); print(len(s2), Suite.compositions)
