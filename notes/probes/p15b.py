import random
from mingus.extra import fft
c=fft._log_cache
def cold(f):
    fft._last_asked=None
    try: return fft._find_log_index(f)
    except Exception as e: return 'RAISE '+repr(e)
rng=random.Random(1); bad=[]
for trial in range(40000):
    fft._last_asked=None
    hist=[rng.choice([rng.uniform(1,30000), rng.choice(c), rng.choice(c)*1.0000001, rng.choice(c)*0.9999999, rng.uniform(24000,28000)]) for _ in range(rng.randint(1,6))]
    warm=[]
    for f in hist:
        try: warm.append(fft._find_log_index(f))
        except Exception as e: warm.append('RAISE '+repr(e))
    sv=None
    cd=[cold(f) for f in hist]
    if warm!=cd: bad.append((hist,warm,cd))
print(len(bad)); 
for b in bad[:4]: print(b)
